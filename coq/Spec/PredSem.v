(* Spec/PredSem.v — the ordinary two-valued SQL meaning of a WHERE predicate on one row (property C01).
   Written from the property text; it does not mention the evaluator (Model/Eval.v).  Shared with the
   model are only the data types (Base/Value.v, Model/Ast.v), the three-way primitives [fcmp]
   (doubles) and [str_cmp] (byte strings), and the rune split / ASCII case folding of Model/Like.v
   ([runes], [to_lower]) that both sides of LIKE are passed through. *)
From Coq Require Import Floats.
From GenqlV Require Import Base.Prelude Base.Value Model.Ast Model.Like.
Local Open Scope Z_scope.

(* ------------------------------------------------------------------ *)
(* LIKE: the classical wildcard matcher                                 *)
(* ------------------------------------------------------------------ *)

(* declarative: '%' stands for any sequence of runes, '_' for any one rune, every other rune -
   whatever it is: ( ) [ . * + ? \ ^ $ | ... - stands for itself *)
Inductive wild : list rune -> list rune -> Prop :=
| W_nil : wild [] []
| W_one : forall p s c, wild p s -> wild ("_"%string :: p) (c :: s)
| W_pct_none : forall p s, wild p s -> wild ("%"%string :: p) s
| W_pct_more : forall p s c, wild ("%"%string :: p) s -> wild ("%"%string :: p) (c :: s)
| W_lit : forall r p s, r <> "_"%string -> r <> "%"%string -> wild p s -> wild (r :: p) (r :: s).

(* the same as a boolean function (textbook backtracking matcher) *)
Fixpoint wildcard_match (p s : list rune) : bool :=
  match p with
  | [] => match s with [] => true | _ => false end
  | c :: p' =>
      if String.eqb c "%" then
        (fix any_seq (s : list rune) : bool :=
           wildcard_match p' s || match s with [] => false | _ :: s' => any_seq s' end) s
      else
        match s with
        | [] => false
        | d :: s' => (String.eqb c "_" || String.eqb c d) && wildcard_match p' s'
        end
  end.

(* pattern and subject are byte strings; matching is on case-folded runes *)
Definition like_sem (subject pattern : string) : bool :=
  wildcard_match (runes (to_lower pattern)) (runes (to_lower subject)).

(* ------------------------------------------------------------------ *)
(* comparisons                                                          *)
(* ------------------------------------------------------------------ *)

(* three-way comparison of two scalars of the same kind: numeric on numbers, byte-lexicographic on
   strings; undefined across kinds (outside the claim) *)
Definition three_way (x y : value) : option Z :=
  match x, y with
  | VNum a, VNum b => Some (fcmp a b)
  | VStr s, VStr t => Some (str_cmp s t)
  | _, _ => None
  end.

(* the relation an operator denotes, on the sign of the three-way result *)
Definition rel (op : cmpop) (c : Z) : bool :=
  match op with
  | OpEq => c =? 0
  | OpNe => negb (c =? 0)
  | OpLt => c <? 0
  | OpLe => c <=? 0
  | OpGt => 0 <? c
  | OpGe => 0 <=? c
  end.

Definition cmp_sem (op : cmpop) (x y : value) : bool :=
  match three_way x y with Some c => rel op c | None => false end.

Definition negate_if (neg b : bool) : bool := if neg then negb b else b.

(* ------------------------------------------------------------------ *)
(* rows, columns, operands                                              *)
(* ------------------------------------------------------------------ *)

Notation tuple := (list (string * value)).

(* the value a column path a.b.c denotes in a row: descend through objects; a missing key, or a path
   through NULL, is NULL; a path through a scalar or an array is not a column ([None]) *)
Fixpoint col_at (p : list string) (v : value) : option value :=
  match p with
  | [] => Some v
  | k :: rest =>
      match v with
      | VObj kvs => match lookup k kvs with Some x => col_at rest x | None => Some VNull end
      | VNull => Some VNull
      | _ => None
      end
  end.

(* a column reference: non-empty, and not the backward-navigation marker "<-" *)
Definition path_ok (p : list string) : bool :=
  match p with [] => false | k :: _ => negb (String.eqb k "<-") end.

Inductive kind := KNum | KStr.
Definition kind_eqb (a b : kind) : bool :=
  match a, b with KNum, KNum => true | KStr, KStr => true | _, _ => false end.
Definition kind_of (v : value) : option kind :=
  match v with VNum _ => Some KNum | VStr _ => Some KStr | _ => None end.

Definition is_null (v : value) : bool := match v with VNull => true | _ => false end.
Definition is_true (v : value) : bool := match v with VBool true => true | _ => false end.
Definition is_false (v : value) : bool := match v with VBool false => true | _ => false end.

Section Pred.
  Context {Q : Type}.

  (* operands of comparisons: a column or a constant.  The parser reads a negative literal -c as
     unary minus applied to c; it denotes the double (-1)*c, i.e. the negation of c. *)
  Definition operand (r : tuple) (e : expr Q) : option value :=
    match e with
    | ECol p => if path_ok p then col_at p (VObj r) else None
    | ENum f => Some (VNum f)
    | EUn UNeg (ENum f) => Some (VNum ((-1) * f)%float)
    | EStr s => Some (VStr s)
    | _ => None
    end.

  Definition val (r : tuple) (e : expr Q) : value :=
    match operand r e with Some v => v | None => VNull end.

  Definition str_of (v : value) : string := match v with VStr s => s | _ => ""%string end.

  (* ---------------------------------------------------------------- *)
  (* meaning of a predicate on a row                                   *)
  (* ---------------------------------------------------------------- *)
  Fixpoint pred_sem (r : tuple) (p : expr Q) : bool :=
    match p with
    | EBool b => b
    | EAnd a b => pred_sem r a && pred_sem r b
    | EOr a b => pred_sem r a || pred_sem r b
    | ENot a => negb (pred_sem r a)
    | ECmp op a b => cmp_sem op (val r a) (val r b)
    | ELike neg a b => negate_if neg (like_sem (str_of (val r a)) (str_of (val r b)))
    | EIn neg a items => negate_if neg (existsb (fun c => cmp_sem OpEq (val r a) (val r c)) items)
    | EBetween neg a lo hi =>
        negate_if neg (cmp_sem OpGe (val r a) (val r lo) && cmp_sem OpLe (val r a) (val r hi))
    | EIs op a =>
        let v := val r a in
        match op with
        | IsNull => is_null v
        | IsNotNull => negb (is_null v)
        | IsTrue => is_true v
        | IsNotTrue => negb (is_true v)
        | IsFalse => is_false v
        | IsNotFalse => negb (is_false v)
        end
    | _ => false
    end.

  (* ---------------------------------------------------------------- *)
  (* the scope of the claim, per row                                   *)
  (* ---------------------------------------------------------------- *)
  Definition operand_kind (r : tuple) (e : expr Q) : option kind :=
    match operand r e with Some v => kind_of v | None => None end.

  (* [e] is an operand holding, in this row, a non-NULL scalar of kind [k] *)
  Definition has_kind (r : tuple) (k : kind) (e : expr Q) : bool :=
    match operand_kind r e with Some k' => kind_eqb k k' | None => false end.

  (* every comparison / IN / BETWEEN relates operands of ONE scalar kind (number or string), LIKE
     relates strings; NULL or missing columns occur only under IS [NOT] NULL, bool columns only
     under IS [NOT] TRUE/FALSE; connectives to any depth *)
  Fixpoint in_scope (r : tuple) (p : expr Q) : bool :=
    match p with
    | EBool _ => true
    | EAnd a b => in_scope r a && in_scope r b
    | EOr a b => in_scope r a && in_scope r b
    | ENot a => in_scope r a
    | ECmp _ a b =>
        match operand_kind r a with Some k => has_kind r k b | None => false end
    | ELike _ a b => has_kind r KStr a && has_kind r KStr b
    | EIn _ a items =>
        match operand_kind r a with Some k => forallb (has_kind r k) items | None => false end
    | EBetween _ a lo hi =>
        match operand_kind r a with Some k => has_kind r k lo && has_kind r k hi | None => false end
    | EIs op (ECol p) =>
        path_ok p &&
        match op with
        | IsNull | IsNotNull => match col_at p (VObj r) with Some _ => true | None => false end
        | _ => match col_at p (VObj r) with Some (VBool _) => true | _ => false end
        end
    | _ => false
    end.

  (* a table element: object rows are judged by the predicate; anything that is not an object is
     not a row (the row loop skips it) *)
  Definition row_sat (p : expr Q) (v : value) : bool :=
    match v with VObj kv => pred_sem kv p | _ => false end.

  (* table scope: every element that is an object is in scope; no element is an array (arrays are
     inner dimensions, handled by a recursive query - another property) *)
  Definition elem_in_scope (p : expr Q) (v : value) : bool :=
    match v with VObj kv => in_scope kv p | VArr _ => false | _ => true end.
End Pred.
