(* Spec/FuncSpec.v — what property C18 says about each built-in, written from the property text
   (not from the code): a boolean judgement  spec_holds : name -> argument values -> observed
   outcome -> bool  that the correspondence run applies to what the REAL code returned.
   Where the property is silent (e.g. fractional indices, CONCAT of values without a modelled
   text, non-boolean IF conditions) the judgement is [true] — except that a run-time panic inside
   the engine is never an acceptable outcome ("... an error for an index outside the array",
   "rejects a wrong argument count with an error").
   Standard-library behaviour enters only through an [oracles] record (Unicode case maps,
   strconv), exactly as in the model. *)
From Coq Require Import Floats.
From GenqlV Require Import Base.Prelude Base.Fmt Base.Value Model.Funcs.
Local Open Scope string_scope.

(* what the harness observes of one evaluation *)
Inductive c18_obs :=
| OVal (v : value)                        (* the value of column v *)
| OError                                  (* New/Exec returned an ordinary error *)
| OPanicked                               (* Exec returned a recovered runtime.Error (internal panic) *)
| OStr (len : nat) (lowerhex det : bool) (roundtrip : option value)
    (* an oracle-dependent string (ENCODE / HASH): its length, whether it is lower-case hex,
       whether a second evaluation (other document / row form) returned the same string, and —
       for ENCODE — what DECODE of that very string with the same base returned on the real code *)
| OReg (l : list (string * bool)).         (* the registration table read from functions.go *)

Section Spec.
  Variable O : oracles.
  Variable consts : option (list (string * value)).

  (* documented arity (functions.go doc comments); None = any number of arguments *)
  Definition spec_arity (name : string) : option (option nat) :=
    let fixed n := Some (Some n) in
    if String.eqb name "concat" || String.eqb name "array" || String.eqb name "count" then Some None
    else if String.eqb name "timestamp" then fixed 0%nat
    else if String.eqb name "if" then fixed 3%nat
    else if existsb (String.eqb name) ["elementat"; "changetype"; "daterange"; "setvar"; "raise_when";
                                       "report_when"; "hash"; "encode"; "decode"] then fixed 2%nat
    else if existsb (String.eqb name) ["sum"; "avg"; "min"; "max"; "first"; "last"; "defaultkey"; "unwind";
                                       "fuse"; "constant"; "getvar"; "raise"; "report"; "to_lower"; "to_upper"]
         then fixed 1%nat
    else None.

  Definition is_val (o : c18_obs) (v : value) : bool :=
    match o with OVal w => veqb v w | _ => false end.
  Definition is_error (o : c18_obs) : bool := match o with OError => true | _ => false end.

  Definition scalar (v : value) : bool :=
    match v with VNull | VBool _ | VNum _ | VStr _ => true | _ => false end.

  (* one level of flattening *)
  Definition flatten1 (l : list value) : list value :=
    List.concat (map (fun x => match x with VArr inner => inner | _ => [x] end) l).

  (* JSON-like through and through: no tagged Go value (int, Ommit, ...) inside *)
  Fixpoint plain (v : value) : bool :=
    match v with
    | VArr l => forallb plain l
    | VObj kvs => negb (is_tagged_obj kvs) && forallb (fun kv => plain (snd kv)) kvs
    | _ => true
    end.

  (* texts of the non-NULL arguments, in order (None: a text this specification does not fix) *)
  Fixpoint texts (l : list value) : option string :=
    match l with
    | [] => Some ""
    | VNull :: r => texts r
    | x :: r => match (if plain x then fmt_value x else None), texts r with
                | Some s, Some t => Some (s ++ t)
                | _, _ => None
                end
    end.

  Definition known_lower (s : string) : option string :=
    match str_lower O s with OOk l => Some l | _ => None end.

  Definition float_of_nat (n : nat) : float := float_of_Z (Z.of_nat n).

  (* f = i for an integer 0 <= i < n *)
  Fixpoint int_index (f : float) (n : nat) : option nat :=
    match n with
    | 0%nat => None
    | S k => if PrimFloat.eqb f (float_of_nat k) then Some k else int_index f k
    end.

  Definition spec_call (name : string) (args : list value) (o : c18_obs) : bool :=
    match o with OPanicked => false | _ =>
    match spec_arity name with
    | None => true                                   (* not a built-in: nothing claimed *)
    | Some ar =>
      let wrong_arity := match ar with Some n => negb (Nat.eqb (List.length args) n) | None => false end in
      if wrong_arity then is_error o else
      if String.eqb name "first" then
        match args with
        | [VNull] => is_val o VNull
        | [VArr l] => is_val o (hd VNull l)
        | _ => true end
      else if String.eqb name "last" then
        match args with
        | [VNull] => is_val o VNull
        | [VArr l] => is_val o (List.last l VNull)
        | _ => true end
      else if String.eqb name "elementat" then
        match args with
        | [VNull; _] => is_val o VNull
        | [VArr l; VNum f] =>
            let n := List.length l in
            if PrimFloat.leb f (-1)%float || PrimFloat.leb (float_of_nat n) f then is_error o
            else match int_index f n with
                 | Some i => is_val o (nth i l VNull)
                 | None => true                     (* fractional / NaN: not specified *)
                 end
        | _ => true end
      else if String.eqb name "unwind" then
        match args with
        | [VArr l] => is_val o (VArr (flatten1 l))
        | _ => true end
      else if String.eqb name "array" then is_val o (VArr args)
      else if String.eqb name "concat" then
        match texts args with Some t => is_val o (VStr t) | None => true end
      else if String.eqb name "if" then
        match args with
        | [VBool true; x; _] => is_val o x
        | [VBool false; _; y] => is_val o y
        | _ => true end
      else if String.eqb name "to_lower" then
        match args with
        | [VStr s] => match str_lower O s with OOk l => is_val o (VStr l) | _ => true end
        | _ => true end
      else if String.eqb name "to_upper" then
        match args with
        | [VStr s] => match str_upper O s with OOk u => is_val o (VStr u) | _ => true end
        | _ => true end
      else if String.eqb name "changetype" then
        match args with
        | [v; VStr t] =>
            match v, known_lower t with
            | VNull, _ => true
            | _, None => true
            | _, Some tl =>
                if String.eqb tl "array" then is_val o (VArr [v])
                else if String.eqb tl "string" then
                  match (if plain v then fmt_value v else None) with Some s => is_val o (VStr s) | None => true end
                else if String.eqb tl "double" then
                  match v with
                  | VNum x => is_val o (VNum x)
                  | VStr s => match parse_float O s with
                              | OOk x => is_val o (VNum x) | OFail => is_error o | OUnk => true end
                  | _ => true end
                else if String.eqb tl "integer" then
                  match v with
                  | VStr s => match atoi O s with
                              | OOk z => is_val o (vint z) | OFail => is_error o | OUnk => true end
                  | _ => true end
                else is_error o                       (* unknown conversion type *)
            end
        | _ => true end
      else if String.eqb name "daterange" then
        match args with
        | [VStr f; VStr t] => is_val o (VArr [VStr f; VStr t])
        | _ => true end
      else if String.eqb name "constant" then
        match args, consts with
        | [VStr k], Some m => match lookup k m with Some v => is_val o v | None => is_error o end
        | _, _ => true end
      else if String.eqb name "hash" then
        match args with
        | [v; VStr a] =>
            match known_lower a with
            | Some al =>
                match hash_alg_of al with
                | Some alg =>
                    if scalar v then
                      match o with
                      | OStr len lh det _ => Nat.eqb len (2 * digest_len alg) && lh && det
                      | _ => false end
                    else true
                | None => is_error o                  (* unknown algorithm *)
                end
            | None => true end
        | _ => true end
      else if String.eqb name "encode" then
        match args with
        | [v; VStr b] =>
            match known_lower b with
            | Some bl =>
                match base_of bl with
                | Some _ =>
                    if scalar v then
                      match o with
                      | OStr _ _ det (Some w) => det && veqb v w      (* DECODE(ENCODE(v,b),b) = v *)
                      | _ => false end
                    else true
                | None => is_error o                  (* unknown base *)
                end
            | None => true end
        | _ => true end
      else if String.eqb name "decode" then
        match args with
        | [_; VStr b] =>
            match known_lower b with
            | Some bl => match base_of bl with Some _ => true | None => is_error o end
            | None => true end
        | _ => true end
      else true
    end end.

  (* laws that span two calls, judged on the expression *)
  Definition spec_expr (e : fexpr) (o : c18_obs) : bool :=
    match e with
    | Call d [Call en [Lit v; Lit (VStr b1)]; Lit (VStr b2)] =>
        if String.eqb (ascii_lower d) "decode" && String.eqb (ascii_lower en) "encode" && String.eqb b1 b2 && scalar v then
          match known_lower b1 with
          | Some bl => match base_of bl with Some _ => is_val o v | None => is_error o end
          | None => true end
        else if String.eqb (ascii_lower d) "changetype" && String.eqb (ascii_lower en) "changetype" then
          match v, known_lower b1, known_lower b2, fmt_value v with
          | VNum x, Some t1, Some t2, Some _ =>
              if String.eqb t1 "string" && String.eqb t2 "double" then is_val o (VNum x) else true
          | _, _, _, _ => true end
        else true
    | _ => true
    end.
End Spec.
