(* Spec/GroupSpec.v — textbook specification of GROUP BY and of the five aggregates, written from
   the text of property C03 and independent of the engine's algorithm (no scan, no insertion):

     * the groups of a table are  (k, members k rows)  for k ranging over the keys of the table in
       order of first appearance;  members k rows  is the sub-list (source order) of the rows whose
       key equals k;
     * COUNT counts, SUM / MIN / MAX fold over the non-NULL numbers of the column and are NULL when
       there is none, AVG is that sum divided by the number of entries of the column.

   Definitions only. *)
From Coq Require Import Floats.
From GenqlV Require Import Base.Prelude Base.Value Model.Ast.
Local Open Scope list_scope.

(* ------------------------------------------------------------------ *)
(* grouping, for any row type, key type and key equality                *)
(* ------------------------------------------------------------------ *)

Section Generic.
  Context {R K : Type}.
  Variable key : R -> K.
  Variable keq : K -> K -> bool.

  (* the rows carrying key k, in source order *)
  Definition members (k : K) (rows : list R) : list R :=
    filter (fun r => keq k (key r)) rows.

  (* the distinct keys in order of first appearance; [seen] = keys that already appeared *)
  Fixpoint first_keys_from (seen : list K) (rows : list R) : list K :=
    match rows with
    | [] => []
    | r :: rs =>
        if existsb (fun k => keq k (key r)) seen then first_keys_from seen rs
        else key r :: first_keys_from (key r :: seen) rs
    end.

  Definition first_keys (rows : list R) : list K := first_keys_from [] rows.

  Definition group_by (rows : list R) : list (K * list R) :=
    map (fun k => (k, members k rows)) (first_keys rows).

  (* no two keys of the list are equal (w.r.t. keq) *)
  Definition pairwise_distinct (ks : list K) : Prop :=
    ForallOrdPairs (fun a b => keq a b = false) ks.
End Generic.

(* ------------------------------------------------------------------ *)
(* the instance for JSON rows grouped on named columns                  *)
(* ------------------------------------------------------------------ *)

(* the value of column c in a row: a missing column reads as NULL *)
Definition column (c : string) (r : value) : value :=
  match r with
  | VObj kvs => match lookup c kvs with Some v => v | None => VNull end
  | _ => VNull
  end.

(* the value of a grouping column in a row, when it has one.  The column is a path of key steps and index steps
   (Model/Ast.v [kstep]).  Written from the text of the property, not from selector.go:
     * nothing below NULL: every further step reads NULL;
     * a key step reads the entry of an object, NULL when the object has no such entry;
     * an index step reads element i of an array that has one (0 <= i < length);
     * anything else — a key step on a scalar or an array, an index step on an object or a scalar, an index
       beyond the end of the array, a negative index — has NO value ([None]): such a row is outside the scope of
       the partition claims ([row_ok]); [path_stuck] below lists the cases in which the engine refuses the query
       (C03_unreadable_key_is_refused). *)
Fixpoint path_value (p : list kstep) (v : value) : option value :=
  match p with
  | [] => Some v
  | s :: rest =>
      match v with
      | VNull => Some VNull
      | _ =>
          match s, v with
          | KKey k, VObj kvs =>
              path_value rest (match lookup k kvs with Some x => x | None => VNull end)
          | KIdx i, VArr l =>
              if ((0 <=? i) && (i <? Z.of_nat (List.length l)))%Z then
                match nth_error l (Z.to_nat i) with
                | Some x => path_value rest x
                | None => None
                end
              else None
          | _, _ => None
          end
      end
  end.

(* the value of grouping column c in a row; a column without a value is outside [row_ok] *)
Definition key_value (c : gkey) (r : value) : value :=
  match path_value (gk_path c) r with Some v => v | None => VNull end.

(* the key of a row: its grouping columns (under the names the group row carries them) with their values, in
   GROUP BY order *)
Definition key_of (cols : list gkey) (r : value) : list (string * value) :=
  map (fun c => (gk_name c, key_value c r)) cols.

(* equality of scalar column values: NULL = NULL, booleans, strings bytewise, numbers numerically
   (so 0 = -0); values of different kinds are different *)
Definition scalar_eq (a b : value) : bool :=
  match a, b with
  | VNull, VNull => true
  | VBool x, VBool y => Bool.eqb x y
  | VNum x, VNum y => PrimFloat.eqb x y
  | VStr x, VStr y => String.eqb x y
  | _, _ => false
  end.

(* two keys are equal iff they agree on every grouping column *)
Fixpoint key_eq (k1 k2 : list (string * value)) : bool :=
  match k1, k2 with
  | [], [] => true
  | (_, a) :: r1, (_, b) :: r2 => scalar_eq a b && key_eq r1 r2
  | _, _ => false
  end.

Definition group_spec (cols : list gkey) (rows : list value)
  : list (list (string * value) * list value) :=
  group_by (key_of cols) key_eq rows.

(* scope of the grouping claims: every grouping column has a value in every row ([path_value] is [Some]), and
   that value is NULL (or missing), a boolean, a
   string, or a number that is not NaN ([x =? x] is false exactly for NaN); an array or an object
   as key value is outside: Go panics comparing two of them *)
Definition key_val_ok (v : value) : bool :=
  match v with
  | VNull | VBool _ | VStr _ => true
  | VNum f => PrimFloat.eqb f f
  | VArr _ | VObj _ => false
  end.

(* the column has a value in the row, and that value is a scalar in scope *)
Definition col_ok (r : value) (c : gkey) : bool :=
  match path_value (gk_path c) r with
  | Some v => key_val_ok v
  | None => false
  end.

Definition row_ok (cols : list gkey) (r : value) : bool :=
  match r with
  | VObj _ => forallb (col_ok r) cols
  | _ => false
  end.

Definition rows_ok (cols : list gkey) (rows : list value) : bool := forallb (row_ok cols) rows.

(* one name, one column.  BuildGroup keeps the grouping columns in a map keyed by the column text, and the steps
   are what that text parses to: two entries with the same name are the same column *)
Definition names_unambiguous (cols : list gkey) : Prop :=
  forall c c', In c cols -> In c' cols -> gk_name c = gk_name c' -> c = c'.

(* every grouping column has a value in the row (of whatever kind) *)
Definition readable (cols : list gkey) (r : value) : bool :=
  forallb (fun c => match path_value (gk_path c) r with Some _ => true | None => false end) cols.

(* the ways a grouping column has no value that make the engine REFUSE the query (selector.go Reader returns an
   error): the path runs through a scalar (a key step or an index step on a boolean / number / string), an index
   step meets an object, or an index step [i] meets an array without an element i (i >= length, or i < -1).
   Not in this list (the engine does read something): a key step on an ARRAY reads the key off every element
   and yields an array — a container as key value, outside [key_val_ok] like any other array — and the index
   -1 is the selector `[each]`. *)
Fixpoint path_stuck (p : list kstep) (v : value) : bool :=
  match p with
  | [] => false
  | s :: rest =>
      match s, v with
      | _, VNull => false
      | _, (VBool _ | VNum _ | VStr _) => true
      | KKey k, VObj kvs => path_stuck rest (match lookup k kvs with Some x => x | None => VNull end)
      | KKey _, VArr _ => false
      | KIdx _, VObj _ => true
      | KIdx i, VArr l =>
          if ((0 <=? i) && (i <? Z.of_nat (List.length l)))%Z then
            match nth_error l (Z.to_nat i) with
            | Some x => path_stuck rest x
            | None => false
            end
          else negb (i =? -1)%Z
      end
  end.

(* the only facts about IEEE equality the grouping theorems use; they hold for all doubles
   (x =? y = true implies neither is NaN).  Proofs.C03FloatEq derives them from the standard
   library's specification of the primitive ([FloatAxioms.eqb_spec]). *)
Record FloatEqLaws : Prop := {
  feq_sym : forall x y, PrimFloat.eqb x y = true -> PrimFloat.eqb y x = true;
  feq_trans : forall x y z, PrimFloat.eqb x y = true -> PrimFloat.eqb y z = true -> PrimFloat.eqb x z = true
}.

(* ------------------------------------------------------------------ *)
(* aggregates over one column of the member rows                        *)
(* ------------------------------------------------------------------ *)

(* scope: every entry of the column is NULL or a number *)
Definition numeric_col (col : list value) : bool :=
  forallb (fun v => match v with VNull | VNum _ => true | _ => false end) col.

(* the non-NULL entries, in member order *)
Definition nums (col : list value) : list float :=
  flat_map (fun v => match v with VNum f => [f] | _ => [] end) col.

Definition has_null (col : list value) : bool :=
  existsb (fun v => match v with VNull => true | _ => false end) col.

Definition largest_double : float := 0x1.fffffffffffffp+1023%float.

Definition fsum (ns : list float) : float := fold_left PrimFloat.add ns 0%float.
Definition fmin (ns : list float) : float :=
  fold_left (fun m n => if PrimFloat.ltb n m then n else m) ns largest_double.
Definition fmax (ns : list float) : float :=
  fold_left (fun m n => if PrimFloat.ltb m n then n else m) ns (- largest_double)%float.

Definition count_val (n : nat) : value := VNum (float_of_Z (Z.of_nat n)).

(* SUM / MIN / MAX: NULL when no non-NULL member, else the fold *)
Definition null_or (f : list float -> float) (col : list value) : value :=
  match nums col with [] => VNull | ns => VNum (f ns) end.

(* f(col) over the column [col] of a group with [n] members; COUNT( * ) has no column *)
Definition agg_spec (f : aggfn) (n : nat) (col : option (list value)) : option value :=
  match f, col with
  | ACount, None => Some (count_val n)
  | ACount, Some c => Some (count_val (List.length c))
  | _, None => None
  | ASum, Some c => Some (null_or fsum c)
  | AMin, Some c => Some (null_or fmin c)
  | AMax, Some c => Some (null_or fmax c)
  | AAvg, Some c =>
      Some (null_or (fun ns => (fsum ns / float_of_Z (Z.of_nat (List.length c)))%float) c)
  end.

(* the order facts used to read MIN / MAX as extrema: strict order laws of IEEE [<], valid for all
   doubles including NaN *)
Record FloatLtLaws : Prop := {
  flt_irrefl : forall x, PrimFloat.ltb x x = false;
  flt_trans : forall x y z, PrimFloat.ltb x y = true -> PrimFloat.ltb y z = true -> PrimFloat.ltb x z = true
}.
