(* Spec/StrategiesSpec.v — what a select list with function calls MEANS when every call is made in
   place, one after the other (no goroutines, no slots, no WaitGroup): the reference against which
   C14 measures the concurrent machine of Model/Strategies.v.  Written from the property text:
   a call yields its value in the row's column; SPIN / SPINASYNC calls yield no column (and the
   outcome of the call does not matter); ONCE calls the function the first time only and every
   later row sees that value; ASYNC is not part of this language — [strip] removes the
   qualifier first.  The second component lists the invocations the run performs (SPIN calls are
   not listed: nothing is promised about them). *)
From Coq Require Import Floats.
From GenqlV Require Import Base.Prelude Base.Value Model.Strategies.
Local Open Scope string_scope.
Local Open Scope list_scope.

Definition strip_qual (q : qual) : qual := match q with QAsync => QNone | x => x end.
Definition strip_fitem (it : fitem) : fitem :=
  match it with
  | FCol c nm => FCol c nm
  | FCall q fn args nm => FCall (strip_qual q) fn args nm
  end.
Definition strip_item (it : item) : item :=
  match it with
  | IFlat i => IFlat (strip_fitem i)
  | ISub src its nm => ISub src (map strip_fitem its) nm
  end.
Definition strip (q : query) : query :=
  match q with
  | QTable rows items => QTable rows (map strip_item items)
  | QDerived rows inner alias p => QDerived rows (map strip_fitem inner) alias p
  | QMulti dims items => QMulti dims (map strip_fitem items)
  end.

Definition vrow := list (string * value).

Definition sync_fitem (reg : list (string * bool)) (f : oracle) (tag : list nat) (r : row) (mm : memo)
    (it : fitem) : list call * option (option (string * value) * memo) :=
  match it with
  | FCol c nm => ([], Some (Some (nm, eval_arg r (ACol c)), mm))
  | FCall q fn args nm =>
      if negb (is_registered reg fn) then ([], None)
      else
        let c := mkCall tag fn (map (eval_arg r) args) in
        match q with
        | QAsync => ([], None)                                 (* not a synchronous query *)
        | QSpin => if is_immediate reg fn then ([], None) else ([], Some (None, mm))
        | QSpinAsync => if is_immediate reg fn then ([], None) else ([c], Some (None, mm))
        | QOnce =>
            match assoc fn mm with
            | Some v => ([], Some (Some (nm, v), mm))
            | None => match apply_f f c with
                      | FOk v => ([c], Some (Some (nm, v), (fn, v) :: mm))
                      | _ => ([c], None)
                      end
            end
        | _ => match apply_f f c with
               | FOk v => ([c], Some (Some (nm, v), mm))
               | _ => ([c], None)
               end
        end
  end.

Fixpoint sync_fitems (reg : list (string * bool)) (f : oracle) (tag : list nat) (i : nat) (r : row)
    (mm : memo) (its : list fitem) (acc : vrow) : list call * option (vrow * memo) :=
  match its with
  | [] => ([], Some (acc, mm))
  | it :: rest =>
      match sync_fitem reg f (tag ++ [i]) r mm it with
      | (c1, None) => (c1, None)
      | (c1, Some (ov, mm')) =>
          let acc' := match ov with Some (nm, v) => aset nm v acc | None => acc end in
          match sync_fitems reg f tag (S i) r mm' rest acc' with
          | (c2, o) => (c1 ++ c2, o)
          end
      end
  end.

Fixpoint sync_rows (reg : list (string * bool)) (f : oracle) (tag : list nat) (j : nat) (mm : memo)
    (its : list fitem) (rows : list row) : list call * option (list vrow * memo) :=
  match rows with
  | [] => ([], Some ([], mm))
  | r :: rest =>
      match sync_fitems reg f (tag ++ [j]) 0 r mm its [] with
      | (c1, None) => (c1, None)
      | (c1, Some (vr, mm')) =>
          match sync_rows reg f tag (S j) mm' its rest with
          | (c2, None) => (c1 ++ c2, None)
          | (c2, Some (vrs, mm'')) => (c1 ++ c2, Some (vr :: vrs, mm''))
          end
      end
  end.

Definition vobjs (l : list vrow) : list value := map VObj l.

Definition sync_item (reg : list (string * bool)) (f : oracle) (tag : list nat) (r : row) (mm : memo)
    (it : item) : list call * option (option (string * value) * memo) :=
  match it with
  | IFlat fi => sync_fitem reg f tag r mm fi
  | ISub SDual its nm =>
      match sync_fitems reg f (tag ++ [0]) 0 r [] its [] with
      | (c, None) => (c, None)
      | (c, Some (vr, _)) => (c, Some (Some (nm, VObj vr), mm))
      end
  | ISub (STable rows) its nm =>
      match sync_rows reg f tag 0 [] its rows with
      | (c, None) => (c, None)
      | (c, Some (vrs, _)) => (c, Some (Some (nm, VArr (vobjs vrs)), mm))
      end
  end.

Fixpoint sync_items (reg : list (string * bool)) (f : oracle) (tag : list nat) (i : nat) (r : row)
    (mm : memo) (its : list item) (acc : vrow) : list call * option (vrow * memo) :=
  match its with
  | [] => ([], Some (acc, mm))
  | it :: rest =>
      match sync_item reg f (tag ++ [i]) r mm it with
      | (c1, None) => (c1, None)
      | (c1, Some (ov, mm')) =>
          let acc' := match ov with Some (nm, v) => aset nm v acc | None => acc end in
          match sync_items reg f tag (S i) r mm' rest acc' with
          | (c2, o) => (c1 ++ c2, o)
          end
      end
  end.

Fixpoint sync_orows (reg : list (string * bool)) (f : oracle) (j : nat) (mm : memo)
    (its : list item) (rows : list row) : list call * option (list vrow * memo) :=
  match rows with
  | [] => ([], Some ([], mm))
  | r :: rest =>
      match sync_items reg f [j] 0 r mm its [] with
      | (c1, None) => (c1, None)
      | (c1, Some (vr, mm')) =>
          match sync_orows reg f (S j) mm' its rest with
          | (c2, None) => (c1 ++ c2, None)
          | (c2, Some (vrs, mm'')) => (c1 ++ c2, Some (vr :: vrs, mm''))
          end
      end
  end.

Fixpoint sync_dims (reg : list (string * bool)) (f : oracle) (d : nat) (mm : memo)
    (its : list fitem) (dims : list (list row)) : list call * option (list value) :=
  match dims with
  | [] => ([], Some [])
  | rows :: rest =>
      match sync_rows reg f [d] 0 mm its rows with
      | (c1, None) => (c1, None)
      | (c1, Some (vrs, mm')) =>
          match sync_dims reg f (S d) mm' its rest with
          | (c2, None) => (c1 ++ c2, None)
          | (c2, Some vs) => (c1 ++ c2, Some (VArr (vobjs vrs) :: vs))
          end
      end
  end.

Definition vlookup (c : string) (vr : vrow) : value :=
  match assoc c vr with Some x => x | None => VNull end.

Definition vproject (alias : string) (p : dproj) (vr : vrow) : vrow :=
  match p with
  | DStar => [(alias, VObj vr)]
  | DCols cols => fold_left (fun acc cn => aset (snd cn) (vlookup (fst cn) vr) acc) cols []
  end.

Definition to_res {A} (o : option A) (mk : A -> value) : res value :=
  match o with Some a => Ok (mk a) | None => Err end.

(* (invocations, result) *)
Definition run_sync (reg : list (string * bool)) (f : oracle) (q : query) : list call * res value :=
  match q with
  | QTable rows items =>
      let '(c, o) := sync_orows reg f 0 [] items rows in
      (c, to_res o (fun x => VArr (vobjs (fst x))))
  | QDerived rows inner alias p =>
      let '(c, o) := sync_rows reg f [] 0 [] inner rows in
      (c, to_res o (fun x => VArr (vobjs (map (vproject alias p) (fst x)))))
  | QMulti dims items =>
      let '(c, o) := sync_dims reg f 0 [] items dims in
      (c, to_res o VArr)
  end.

(* no ASYNC call of an immediate function (those are rejected: C14_immediate_rejects) *)
Definition fitem_ok (reg : list (string * bool)) (it : fitem) : bool :=
  match it with
  | FCall QAsync fn _ _ => negb (is_immediate reg fn)
  | _ => true
  end.
Definition item_ok (reg : list (string * bool)) (it : item) : bool :=
  match it with
  | IFlat i => fitem_ok reg i
  | ISub _ its _ => forallb (fitem_ok reg) its
  end.
Definition async_ok (reg : list (string * bool)) (q : query) : bool :=
  match q with
  | QTable _ items => forallb (item_ok reg) items
  | QDerived _ inner _ _ => forallb (fitem_ok reg) inner
  | QMulti _ items => forallb (fitem_ok reg) items
  end.
