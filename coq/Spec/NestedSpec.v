(* Spec/NestedSpec.v — textbook specification for C08, written from the property text:

     "When the FROM path resolves to an array of arrays (any depth), the result has the same nesting
      and each inner array's result equals what the same WHERE and select list return when run
      directly on that inner array; flattening the source with the `mix=>` top-level function and
      querying once returns the concatenation of those inner results."

   The query itself is abstract here: [direct rows out] reads "the query, run directly on the table
   [rows], returns [out]".  Nothing below mentions how the engine walks the nesting. *)
From GenqlV Require Import Base.Prelude Base.Value.

Definition is_arr (v : value) : bool := match v with VArr _ => true | _ => false end.

(* a table proper: none of its rows is itself an array *)
Definition flat (rows : list value) : bool := forallb (fun v => negb (is_arr v)) rows.

(* every level of nesting flattened: the non-array leaves, left to right *)
Fixpoint leaves (v : value) : list value :=
  match v with
  | VArr l => flat_map leaves l
  | _ => [v]
  end.

Section Nested.
  Variable direct : list value -> value -> Prop.

  (* the result for a source that is a table, or an array of such sources (any depth, siblings may
     differ in length and in depth, inner arrays may be empty): same nesting, and each innermost
     table is replaced by what the query returns on it *)
  Inductive nested_result : list value -> value -> Prop :=
  | nr_flat rows out : flat rows = true -> direct rows out -> nested_result rows out
  | nr_deep inners outs :
      Forall2 nested_result inners outs -> nested_result (map VArr inners) (VArr outs).

  (* the concatenation of the results of the innermost tables, left to right *)
  Inductive concat_result : list value -> list value -> Prop :=
  | cr_flat rows o : flat rows = true -> direct rows (VArr o) -> concat_result rows o
  | cr_deep inners os :
      Forall2 concat_result inners os -> concat_result (map VArr inners) (List.concat os).
End Nested.
