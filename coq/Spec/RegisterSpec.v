(* Spec/RegisterSpec.v — textbook semantics of a bank of named registers.

   A register file maps names to values; a name that was never written has no value and reads as
   NULL.  A history is a list of operations performed one after the other:

     RGet k      read register k (the value read is recorded);
     RSet k f    write register k; the value written may be computed from the registers' contents
                at that moment (a counter is  RSet k (fun r => Some (rd r k + 1)) ; a constant is
                RSet k (fun _ => Some v)); if the computation fails, nothing is written and the
                history stops there;
     RAbort      the history stops here (an evaluation error that does not involve the registers);
     RCase arms els
                 a guarded choice, decided ONCE against the registers' contents at that moment: the
                 guards are computed in order (none of them writes, so all see the same contents);
                 each guard computed is an observation of the registers and its outcome is recorded
                 among the values read (VBool); the first guard that holds selects its action, if
                 none holds the action is [els]; a guard whose computation fails stops the history.
                 An action is: nothing (ANone), one write as for RSet (AWrite k f), or a failure
                 that stops the history (AFail).

   [run_reg r h] returns the values read, the final register file and whether the history was
   cut short.  "Last write wins, unset reads as NULL" is all there is to it.  This file does not
   mention the engine. *)
From GenqlV Require Import Base.Prelude Base.Value.

Definition regs := string -> option value.

Definition rd (r : regs) (k : string) : value :=
  match r k with Some v => v | None => VNull end.

Definition wr (r : regs) (k : string) (v : value) : regs :=
  fun k' => if String.eqb k' k then Some v else r k'.

Inductive act :=
| ANone
| AWrite (k : string) (f : regs -> option value)
| AFail.

Inductive op :=
| RGet (k : string)
| RSet (k : string) (f : regs -> option value)
| RAbort
| RCase (arms : list ((regs -> option bool) * act)) (els : act).

Definition history := list op.

(* the guards computed (as values read) and the action selected; None: a guard failed *)
Fixpoint choose (r : regs) (arms : list ((regs -> option bool) * act)) (els : act)
  : list value * option act :=
  match arms with
  | [] => ([], Some els)
  | (g, a) :: rest =>
      match g r with
      | Some true => ([VBool true], Some a)
      | Some false => let '(l, x) := choose r rest els in (VBool false :: l, x)
      | None => ([], None)
      end
  end.

(* what an action does: None = the history stops, Some None = nothing, Some (Some (k, v)) = a write *)
Definition act_out (r : regs) (a : act) : option (option (string * value)) :=
  match a with
  | ANone => Some None
  | AWrite k f => match f r with Some v => Some (Some (k, v)) | None => None end
  | AFail => None
  end.

Definition case_out (r : regs) (arms : list ((regs -> option bool) * act)) (els : act)
  : list value * option (option (string * value)) :=
  let '(l, a) := choose r arms els in
  (l, match a with Some a' => act_out r a' | None => None end).

Definition wr_opt (r : regs) (w : option (string * value)) : regs :=
  match w with Some (k, v) => wr r k v | None => r end.

Fixpoint run_reg (r : regs) (h : history) : list value * regs * bool :=
  match h with
  | [] => ([], r, false)
  | RGet k :: h' =>
      let '(reads, r', ab) := run_reg r h' in (rd r k :: reads, r', ab)
  | RSet k f :: h' =>
      match f r with
      | Some v => run_reg (wr r k v) h'
      | None => ([], r, true)
      end
  | RAbort :: _ => ([], r, true)
  | RCase arms els :: h' =>
      match case_out r arms els with
      | (l, Some w) => let '(reads, r', ab) := run_reg (wr_opt r w) h' in (l ++ reads, r', ab)
      | (l, None) => (l, r, true)
      end
  end.

(* the writes a history performs from [r], resolved to values, oldest first *)
Fixpoint writes (r : regs) (h : history) : list (string * value) :=
  match h with
  | [] => []
  | RGet _ :: h' => writes r h'
  | RSet k f :: h' =>
      match f r with
      | Some v => (k, v) :: writes (wr r k v) h'
      | None => []
      end
  | RAbort :: _ => []
  | RCase arms els :: h' =>
      match case_out r arms els with
      | (_, Some (Some (k, v))) => (k, v) :: writes (wr r k v) h'
      | (_, Some None) => writes r h'
      | (_, None) => []
      end
  end.

(* the last value written to k, if any *)
Fixpoint last_write (k : string) (ws : list (string * value)) : option value :=
  match ws with
  | [] => None
  | (k', v) :: r =>
      match last_write k r with
      | Some v' => Some v'
      | None => if String.eqb k k' then Some v else None
      end
  end.

Definition reads_of (x : list value * regs * bool) : list value := fst (fst x).
Definition regs_of (x : list value * regs * bool) : regs := snd (fst x).
Definition aborted (x : list value * regs * bool) : bool := snd x.
