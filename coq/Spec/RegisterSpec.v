(* Spec/RegisterSpec.v — textbook semantics of a bank of named registers.

   A register file maps names to values; a name that was never written has no value and reads as
   NULL.  A history is a list of operations performed one after the other:

     RGet k      read register k (the value read is recorded);
     RSet k f    write register k; the value written may be computed from the registers' contents
                at that moment (a counter is  RSet k (fun r => Some (rd r k + 1)) ; a constant is
                RSet k (fun _ => Some v)); if the computation fails, nothing is written and the
                history stops there;
     RAbort      the history stops here (an evaluation error that does not involve the registers).

   [run_reg r h] returns the values read, the final register file and whether the history was
   cut short.  "Last write wins, unset reads as NULL" is all there is to it.  This file does not
   mention the engine. *)
From GenqlV Require Import Base.Prelude Base.Value.

Definition regs := string -> option value.

Definition rd (r : regs) (k : string) : value :=
  match r k with Some v => v | None => VNull end.

Definition wr (r : regs) (k : string) (v : value) : regs :=
  fun k' => if String.eqb k' k then Some v else r k'.

Inductive op :=
| RGet (k : string)
| RSet (k : string) (f : regs -> option value)
| RAbort.

Definition history := list op.

Fixpoint run_reg (r : regs) (h : history) : list value * regs * bool :=
  match h with
  | [] => ([], r, false)
  | RGet k :: h' =>
      let '(reads, r', ab) := run_reg r h' in (rd r k :: reads, r', ab)
  | RSet k f :: h' =>
      match f r with
      | Some v => run_reg (wr r k v) h'
      | None => ([], r, true)
      end
  | RAbort :: _ => ([], r, true)
  end.

(* the writes a history performs from [r], resolved to values, oldest first *)
Fixpoint writes (r : regs) (h : history) : list (string * value) :=
  match h with
  | [] => []
  | RGet _ :: h' => writes r h'
  | RSet k f :: h' =>
      match f r with
      | Some v => (k, v) :: writes (wr r k v) h'
      | None => []
      end
  | RAbort :: _ => []
  end.

(* the last value written to k, if any *)
Fixpoint last_write (k : string) (ws : list (string * value)) : option value :=
  match ws with
  | [] => None
  | (k', v) :: r =>
      match last_write k r with
      | Some v' => Some v'
      | None => if String.eqb k k' then Some v else None
      end
  end.

Definition reads_of (x : list value * regs * bool) : list value := fst (fst x).
Definition regs_of (x : list value * regs * bool) : regs := snd (fst x).
Definition aborted (x : list value * regs * bool) : bool := snd x.
