(* Spec/QuerySpec.v — the textbook denotation of one single-table SELECT, written from SQL's
   conceptual evaluation order

       FROM -> WHERE -> GROUP BY -> HAVING -> select list -> DISTINCT -> ORDER BY -> OFFSET / LIMIT

   and assembled ONLY from the specification functions of the per-clause properties:

       WHERE      [row_sat] / [pred_sem]               (Spec/PredSem.v,     property C01)
       GROUP BY   [group_spec], aggregates [agg_spec]   (Spec/GroupSpec.v,   property C03)
       select     [project], [sem_x], [sem_project_x]   (Spec/ExprSem.v,     property C02)
       DISTINCT   [nodup_first] on row identity [veqb]  (Spec/DistinctSpec.v, property C06)
       ORDER BY   [sorted_perm], [lex_le_nullstop]      (Spec/SortSpec.v,    property C05)
       LIMIT      [window_spec] = firstn / skipn        (Spec/WindowSpec.v,  property C05)

   Nothing here mentions the engine's stage functions (filter_rows, exec_group_by, exec_select,
   exec_distinct, exec_order_by, window).  The only engine definition referred to is the comparator
   [order_less] of sort.go, because Go's sort.Slice is an ORACLE: its contract ("some permutation no
   adjacent pair of which is out of order w.r.t. the comparator", [sorted_perm]) is part of the
   meaning of ORDER BY here.  [lex_order] is the same thing said without the comparator.

   The fragment: FROM one table whose elements are objects; optional WHERE in the C01 grammar;
   optional GROUP BY over plain columns, optional HAVING (the C01 grammar, whose comparison operands
   may also be aggregate calls); a select list of `*`, C02 expressions and aggregate calls;
   DISTINCT; ORDER BY key paths read from the OUTPUT rows; LIMIT / OFFSET.  Definitions only. *)
From Coq Require Import Floats Sorting.Permutation.
From GenqlV Require Import Base.Prelude Base.Value Model.Ast Model.Eval Model.Exec.
From GenqlV Require Import Spec.PredSem Spec.GroupSpec Spec.ExprSem Spec.DistinctSpec
  Spec.SortSpec Spec.WindowSpec.
Local Open Scope list_scope.

Definition is_object (v : value) : bool := match v with VObj _ => true | _ => false end.

(* ------------------------------------------------------------------ *)
(* 1. WHERE: the rows of the table that satisfy the predicate           *)
(* ------------------------------------------------------------------ *)

(* without WHERE every row (= object element of the table) is kept *)
Definition where_sem (s : select stmt) (r : value) : bool :=
  match s_where s with
  | None => is_object r
  | Some p => row_sat p r
  end.

Definition kept_rows (s : select stmt) (tbl : list value) : list value := filter (where_sem s) tbl.

(* ------------------------------------------------------------------ *)
(* 2. aggregate calls over a list of member rows                        *)
(* ------------------------------------------------------------------ *)

Definition opt_res {A} (o : option A) : res A := match o with Some a => Ok a | None => Err end.

(* COUNT( * ) / f(c): the textbook fold [agg_spec] over the members' column c (a call such as
   SUM( * ) is an error; an argument that is not a plain column is outside the fragment) *)
Definition agg_sem (ms : list value) (f : aggfn) (arg : option (list string)) : res value :=
  match arg with
  | None => opt_res (agg_spec f (List.length ms) None)
  | Some [c] => opt_res (agg_spec f (List.length ms) (Some (map (column c) ms)))
  | Some _ => OutOfModel
  end.

(* a select item evaluated on a tuple [r] in the presence of member rows [ms]: an aggregate call is
   computed from the members, any other expression is the C02 denotation on the tuple *)
Definition item_sem (ms : list value) (r : srow) (e : expr stmt) : res value :=
  match e with
  | EAgg f arg => agg_sem ms f arg
  | _ => sem_x r e
  end.

(* ------------------------------------------------------------------ *)
(* 3. GROUP BY and HAVING                                               *)
(* ------------------------------------------------------------------ *)

Definition sgroup := (list (string * value) * list value)%type.   (* key columns, members *)

(* the tuple a group presents to HAVING and to the select list: its key columns, plus the member
   rows under the reserved name "*" (in a grouped query `*` denotes the members of the group) *)
Definition group_tuple (g : sgroup) : srow :=
  obj_set "*" (VArr (snd g)) (obj_of_list (fst g)).

(* operands of a HAVING comparison: an aggregate over the members, or a C01 operand (column of the
   group tuple, number, string, negative literal) *)
Definition hoperand (ms : list value) (r : srow) (e : expr stmt) : option value :=
  match e with
  | EAgg f arg => match agg_sem ms f arg with Ok v => Some v | _ => None end
  | _ => operand r e
  end.

Definition hval (ms : list value) (r : srow) (e : expr stmt) : value :=
  match hoperand ms r e with Some v => v | None => VNull end.

(* [pred_sem] of C01 with aggregate calls admitted as comparison operands *)
Fixpoint having_sem (ms : list value) (r : srow) (p : expr stmt) : bool :=
  match p with
  | EAnd a b => having_sem ms r a && having_sem ms r b
  | EOr a b => having_sem ms r a || having_sem ms r b
  | ENot a => negb (having_sem ms r a)
  | ECmp op a b => cmp_sem op (hval ms r a) (hval ms r b)
  | _ => pred_sem r p
  end.

Definition having_of (s : select stmt) (g : sgroup) : bool :=
  match s_having s with
  | None => true
  | Some p => having_sem (snd g) (group_tuple g) p
  end.

(* the groups of the kept rows (order of first appearance, members in source order) that satisfy
   HAVING *)
Definition groups_sem (s : select stmt) (kept : list value) : list sgroup :=
  filter (having_of s) (group_spec (s_group s) kept).

(* ------------------------------------------------------------------ *)
(* 4. the select list                                                   *)
(* ------------------------------------------------------------------ *)

(* a select list made of aggregate calls only: without GROUP BY the whole table is one group *)
Definition aggregate_list (items : list (sel_item stmt)) : bool :=
  match items with
  | [] => false
  | _ => forallb (fun it => match it with IExpr (EAgg _ _) _ => true | _ => false end) items
  end.

(* one output object per source row *)
Definition row_project (items : list (sel_item stmt)) (r : value) : res value :=
  match r with
  | VObj kv => let! o := sem_project_x items kv in Ok (VObj o)
  | _ => Err
  end.

(* one output object per group, computed from that group alone *)
Definition group_project (items : list (sel_item stmt)) (g : sgroup) : res value :=
  let! o := project (item_sem (snd g)) items (group_tuple g) in Ok (VObj o).

Definition selected_sem (s : select stmt) (kept : list value) : res (list value) :=
  match s_group s with
  | [] =>
      if aggregate_list (s_items s)
      then let! o := project (item_sem kept) (s_items s) [] in Ok [VObj o]
      else mapM (row_project (s_items s)) kept
  | _ => mapM (group_project (s_items s)) (groups_sem s kept)
  end.

(* ------------------------------------------------------------------ *)
(* 5. DISTINCT, and everything before ORDER BY                          *)
(* ------------------------------------------------------------------ *)

Definition distinct_sem (d : bool) (rows : list value) : list value :=
  if d then nodup_first veqb rows else rows.

Definition query_unsorted (s : select stmt) (tbl : list value) : res (list value) :=
  let! selected := selected_sem s (kept_rows s tbl) in
  Ok (distinct_sem (s_distinct s) selected).

(* ------------------------------------------------------------------ *)
(* 6. ORDER BY (an oracle) and the window                               *)
(* ------------------------------------------------------------------ *)

(* the contract of sort.Slice with the comparator of sort.go; no ORDER BY: the order is kept *)
Definition oracle_order (keys : list sort_key) (unsorted sorted : list value) : Prop :=
  match keys with
  | [] => sorted = unsorted
  | _ => sorted_perm (order_less keys) unsorted sorted
  end.

(* the same without mentioning the comparator: a permutation whose adjacent rows respect the key
   list lexicographically (per-key direction, NULL last, two NULLs tie and stop the comparison) *)
Definition lex_order (keys : list sort_key) (unsorted sorted : list value) : Prop :=
  match keys with
  | [] => sorted = unsorted
  | _ => Permutation unsorted sorted /\
         forall i a b, nth_error sorted i = Some a -> nth_error sorted (S i) = Some b ->
                       lex_le_nullstop keys a b
  end.

(* THE DENOTATION.  [rows] is a result of query [s] over table [tbl] iff it is the OFFSET/LIMIT
   window of SOME ordering, admitted by the ordering contract, of the unsorted result. *)
Definition query_sem_ord (ord : list sort_key -> list value -> list value -> Prop)
           (s : select stmt) (tbl rows : list value) : Prop :=
  exists unsorted sorted,
    query_unsorted s tbl = Ok unsorted /\
    ord (s_order s) unsorted sorted /\
    rows = window_spec sorted (s_limit s) (s_offset s).

Definition query_sem : select stmt -> list value -> list value -> Prop := query_sem_ord oracle_order.
Definition query_sem_lex : select stmt -> list value -> list value -> Prop := query_sem_ord lex_order.

(* the denotation as a function, for a given sorting procedure *)
Definition query_run (sorter : list sort_key -> list value -> res (list value))
           (s : select stmt) (tbl : list value) : res (list value) :=
  let! unsorted := query_unsorted s tbl in
  let! sorted := sorter (s_order s) unsorted in
  Ok (window_spec sorted (s_limit s) (s_offset s)).

(* ------------------------------------------------------------------ *)
(* 7. the scope of the claim, as a boolean function of (query, table)   *)
(* ------------------------------------------------------------------ *)

(* FROM: a table of objects; WHERE: absent, or every row in the scope of C01 *)
Definition where_scope (s : select stmt) (tbl : list value) : bool :=
  forallb is_object tbl &&
  match s_where s with
  | None => true
  | Some p => forallb (elem_in_scope p) tbl
  end.

(* an aggregate call over members [ms]: COUNT( * ), COUNT(c), or f(c) over a column of numbers and
   NULLs (C03's scope) *)
Definition agg_scope (ms : list value) (f : aggfn) (arg : option (list string)) : bool :=
  forallb is_object ms &&
  match arg with
  | None => true
  | Some [c] => match f with ACount => true | _ => numeric_col (map (column c) ms) end
  | Some _ => false
  end.

(* select items in an aggregate context: `*`, an aggregate call in scope, or a C02 expression *)
Definition agg_item_scope (ms : list value) (it : sel_item stmt) : bool :=
  match it with
  | IStar => true
  | IExpr (EAgg f arg) _ => agg_scope ms f arg
  | IExpr e _ => is_c02x e
  end.

Definition hoperand_scope (ms : list value) (e : expr stmt) : bool :=
  match e with EAgg f arg => agg_scope ms f arg | _ => true end.

Definition hkind (ms : list value) (r : srow) (e : expr stmt) : option kind :=
  match hoperand ms r e with Some v => kind_of v | None => None end.

(* HAVING: C01's [in_scope], where a comparison may relate aggregates (both sides non-NULL scalars
   of one kind) *)
Fixpoint having_scope (ms : list value) (r : srow) (p : expr stmt) : bool :=
  match p with
  | EAnd a b | EOr a b => having_scope ms r a && having_scope ms r b
  | ENot a => having_scope ms r a
  | ECmp _ a b =>
      hoperand_scope ms a && hoperand_scope ms b &&
      match hkind ms r a, hkind ms r b with
      | Some k1, Some k2 => kind_eqb k1 k2
      | _, _ => false
      end
  | _ => in_scope r p
  end.

Definition select_scope (s : select stmt) (kept : list value) : bool :=
  match s_group s with
  | [] =>
      (match s_having s with None => true | Some _ => false end) &&
      (if aggregate_list (s_items s)
       then forallb (agg_item_scope kept) (s_items s)
       else c02x_items (s_items s))
  | cols =>
      rows_ok cols kept &&
      forallb (fun g => match s_having s with
                        | None => true
                        | Some p => having_scope (snd g) (group_tuple g) p
                        end) (group_spec cols kept) &&
      forallb (fun g => forallb (agg_item_scope (snd g)) (s_items s)) (groups_sem s kept)
  end.

Definition bound_okb (o : option Z) : bool :=
  match o with Some z => (0 <=? z)%Z | None => true end.

(* ORDER BY keys over the OUTPUT rows: every key readable, each key column holding strings only,
   booleans only, or non-NaN numbers only (plus NULLs) *)
Definition order_column_ok (vals : list value) : bool :=
  let nn := filter (fun v => negb (SortSpec.is_null v)) vals in
  forallb is_str nn || forallb is_boolv nn ||
  forallb (fun v => match v with VNum f => negb (PrimFloat.is_nan f) | _ => false end) nn.

Definition order_scope (rows : list value) (keys : list sort_key) : bool :=
  forallb (fun ka => match mapM (reader (fst ka)) rows with
                     | Ok vals => order_column_ok vals
                     | _ => false
                     end) keys.

(* everything up to DISTINCT is in scope (projection may still fail, e.g. DIV 0) *)
Definition front_scope (s : select stmt) (tbl : list value) : bool :=
  where_scope s tbl && select_scope s (kept_rows s tbl).

(* the whole query is in scope and the specification assigns it a result *)
Definition query_scope (s : select stmt) (tbl : list value) : bool :=
  front_scope s tbl &&
  bound_okb (s_limit s) && bound_okb (s_offset s) &&
  match query_unsorted s tbl with
  | Ok unsorted => order_scope unsorted (s_order s)
  | _ => false
  end.
