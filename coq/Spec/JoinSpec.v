(* Spec/JoinSpec.v — the textbook join: one merged row per pair (l, r) satisfying ON, plus — for
   LEFT (RIGHT) — each left (right) row without a partner once, with the other alias NULL.
   ON is evaluated on the merged row {leftAlias: l, rightAlias: r} by the ordinary evaluator. *)
From GenqlV Require Import Base.Prelude Base.Value Model.Ast Model.Eval Model.Join.
Local Open Scope list_scope.

Section JoinSpec.
  Variable data : row.
  Variable on : expr stmt.

  Definition spec_env : env stmt :=
    {| e_data := VObj data;
       e_sub := fun _ _ => Err; e_exists := fun _ _ => Err;
       e_agg := fun _ _ _ => Err; e_call := fun _ _ _ _ => Err;
       e_hard := false |}.

  (* does the pair satisfy ON? *)
  Definition on_holds (l r : value) : res bool :=
    let! m := merge_rows l r in
    let! kv := as_row m in
    let! x := eval spec_env kv on in
    match x with RVal (VBool b) => Ok b | _ => Err end.

  (* rows of [rs] that pair with [l] *)
  Fixpoint partners (l : value) (rs : list value) : res (list value) :=
    match rs with
    | [] => Ok []
    | r :: rest =>
        let! b := on_holds l r in
        let! more := partners l rest in
        Ok (if b then r :: more else more)
    end.

  (* LEFT-oriented join of L with R: pairs, plus partner-less left rows with [rid]: NULL when [outer] *)
  Fixpoint left_join (outer : bool) (rid : string) (L R : list value) : res (list value) :=
    match L with
    | [] => Ok []
    | l :: rest =>
        let! ps := partners l R in
        let! here := match ps with
                     | [] => if outer then let! n := with_null l rid in Ok [n] else Ok []
                     | _ => mapM (fun r => merge_rows l r) ps
                     end in
        let! more := left_join outer rid rest R in
        Ok (here ++ more)
    end.
End JoinSpec.

(* RIGHT is the mirrored LEFT; note that ON still reads the same aliases, and merging is symmetric
   because the two aliases are distinct keys *)
Definition join_spec (jt : jointype) (L R : list value) (lid rid : string) (on : expr stmt) (data : row)
  : res (list value) :=
  match jt with
  | JInner => left_join data on false rid L R
  | JLeft => left_join data on true rid L R
  | JRight => left_join data on true lid R L
  end.
