(* Spec/OrderSpec.v — what "a coherent order" means for C15, independent of the code's dispatch:
   numbers are exact rationals, strings are byte sequences ordered lexicographically, and a
   number against a string is ordered by the number's decimal (%v) text. *)
From Coq Require Import QArith.
From GenqlV Require Import Base.Prelude Base.Fmt Model.Compare.
Local Open Scope Z_scope.

(* exact rational value of the dyadic m * 2^e *)
Definition dy_Q (m e : Z) : Q :=
  if 0 <=? e then Qmake (m * 2 ^ e) 1 else Qmake m (Z.to_pos (2 ^ (- e))).

Definition num_val (v : gval) : option Q :=
  match v with
  | GInt _ z => Some (Qmake z 1)
  | GFloat _ m e => Some (dy_Q m e)
  | _ => None
  end.

Definition sgn_cmp (c : comparison) : Z := match c with Lt => -1 | Eq => 0 | Gt => 1 end.

(* integers that convert to float64 exactly; floats always carry their exact value *)
Definition representable (v : gval) : bool :=
  match v with
  | GInt _ z => int_exact_f64 z
  | GFloat _ _ _ => true
  | _ => false
  end.

(* both integer kinds compare exactly whatever their size; a float operand needs both exact *)
Definition num_pair_in_claim (a b : gval) : bool :=
  match a, b with
  | GInt _ _, GInt _ _ => true
  | _, _ => representable a && representable b
  end.

Definition text_of (v : gval) : option string :=
  match fmt_gval v with Ok s => Some s | _ => None end.

(* the order the property prescribes, where it prescribes one *)
Definition spec_cmp (a b : gval) : option Z :=
  match num_val a, num_val b with
  | Some x, Some y => if num_pair_in_claim a b then Some (sgn_cmp (Qcompare x y)) else None
  | _, _ =>
      match a, b with
      | GStr s, GStr t => Some (str_cmp s t)
      | GStr s, (GInt _ _ | GFloat _ _ _) =>
          match text_of b with Some t => Some (str_cmp s t) | None => None end
      | (GInt _ _ | GFloat _ _ _), GStr t =>
          match text_of a with Some s => Some (str_cmp s t) | None => None end
      | _, _ => None
      end
  end.

Definition in_range (o : Z) : bool := (o =? -1) || (o =? 0) || (o =? 1).

(* the property oracle applied to an observed result *)
Definition spec_holds (a b : gval) (o : Z) : bool :=
  in_range o && match spec_cmp a b with Some z => z =? o | None => true end.
