(* Spec/LexDoc.v — lexical documents: what "the same query in the other spelling" means.

   Written from the property text (C17), not from the scanners.  A query text is cut into
   segments; the two dialect options only choose how some segments are SPELLED:

     Raw s    bytes outside any quote and outside any array bracket          (spelled s)
     SQ  s    a single-quoted string literal with body s                     (spelled 's')
     BT  s    a backtick identifier with body s, written by the user         (spelled `s`)
     DQ  n    an identifier named n that the user wants quoted in the dialect's style:
                PostgresEscapingDialect spelling: double quotes, a double quote in n written
                                                  backslash + double quote
                MySQL spelling:                   backticks, a backtick in n written twice
     Open / Close   array constructor brackets:
                IdiomaticArrays spelling  [ ... ]      canonical spelling  ARRAY( ... )

   The claims (Properties/C17.v): DoubleQuotesToBackTick maps the PG spelling of every
   well-formed document to its MySQL spelling, FixIdiomaticArray maps the idiomatic spelling
   of every well-formed, bracket-balanced document to its ARRAY() spelling, whatever is inside
   SQ / BT / DQ bodies, for any length and any nesting depth.  Because the text handed to the
   parser is then EQUAL to the canonical spelling, no assumption about the parser is needed. *)
From GenqlV Require Import Base.Prelude.
Local Open Scope string_scope.

Inductive seg :=
| Raw (s : bytes)
| SQ (s : bytes)
| BT (s : bytes)
| DQ (n : bytes)
| Open
| Close.

Definition doc := list seg.

Inductive qstyle := PG | MY.          (* how DQ identifiers are spelled *)
Inductive astyle := Idiom | Arr.      (* how array brackets are spelled *)

Definition ch_sq : ascii := "'"%char.
Definition ch_dq : ascii := """"%char.
Definition ch_bt : ascii := "`"%char.
Definition ch_bs : ascii := "\"%char.
Definition ch_lb : ascii := "["%char.
Definition ch_rb : ascii := "]"%char.
Definition aeq (a b : ascii) : bool := Ascii.eqb a b.

(* a double quote inside a double-quoted identifier is written backslash + double quote *)
Fixpoint enc_dq (n : bytes) : bytes :=
  match n with
  | EmptyString => EmptyString
  | String c r => if aeq c ch_dq then String ch_bs (String ch_dq (enc_dq r)) else String c (enc_dq r)
  end.

(* a backtick inside a backtick identifier is written twice *)
Fixpoint enc_bt (n : bytes) : bytes :=
  match n with
  | EmptyString => EmptyString
  | String c r => if aeq c ch_bt then String ch_bt (String ch_bt (enc_bt r)) else String c (enc_bt r)
  end.

Definition q1 (c : ascii) : bytes := String c EmptyString.

Definition render_seg (q : qstyle) (a : astyle) (x : seg) : bytes :=
  match x with
  | Raw s => s
  | SQ s => q1 ch_sq ++ s ++ q1 ch_sq
  | BT s => q1 ch_bt ++ s ++ q1 ch_bt
  | DQ n => match q with
            | PG => q1 ch_dq ++ enc_dq n ++ q1 ch_dq
            | MY => q1 ch_bt ++ enc_bt n ++ q1 ch_bt
            end
  | Open => match a with Idiom => "[" | Arr => "ARRAY(" end
  | Close => match a with Idiom => "]" | Arr => ")" end
  end.

Fixpoint render (q : qstyle) (a : astyle) (d : doc) : bytes :=
  match d with
  | [] => EmptyString
  | x :: r => render_seg q a x ++ render q a r
  end.

(* the four spellings named in DESIGN.md *)
Definition render_pg    : doc -> bytes := render PG Idiom.   (* what the user writes with both options *)
Definition render_my    : doc -> bytes := render MY Idiom.   (* after the quote rewrite *)
Definition render_idiom : doc -> bytes := render MY Idiom.   (* before the array rewrite (as New runs it) *)
Definition render_array : doc -> bytes := render MY Arr.     (* canonical MySQL / ARRAY() text *)

(* ------------------------------------------------------------------ *)
(* Well-formedness: which bodies are allowed                            *)
(* ------------------------------------------------------------------ *)

Definition is_quote (c : ascii) : bool := aeq c ch_sq || aeq c ch_dq || aeq c ch_bt.
Definition is_bracket (c : ascii) : bool := aeq c ch_lb || aeq c ch_rb.

Fixpoint all_bytes (p : ascii -> bool) (s : bytes) : bool :=
  match s with EmptyString => true | String c r => p c && all_bytes p r end.

(* body of a MySQL string delimited by q: ANY byte may appear; a backslash takes the next byte of
   the body with it (so the body cannot end in an unpaired backslash); the delimiter itself
   appears only after a backslash or doubled.  This is exactly MySQL's own lexical rule. *)
Fixpoint body_ok (q : ascii) (s : bytes) : bool :=
  match s with
  | EmptyString => true
  | String c r =>
    if aeq c ch_bs then match r with EmptyString => false | String _ r' => body_ok q r' end
    else if aeq c q then match r with
                         | String c' r' => if aeq c' q then body_ok q r' else false
                         | EmptyString => false
                         end
    else body_ok q r
  end.

(* body of a backtick identifier: ANY byte; no escapes; a backtick appears only doubled *)
Fixpoint bt_ok (s : bytes) : bool :=
  match s with
  | EmptyString => true
  | String c r =>
    if aeq c ch_bt then match r with
                        | String c' r' => if aeq c' ch_bt then bt_ok r' else false
                        | EmptyString => false
                        end
    else bt_ok r
  end.

(* a backslash outside quotes takes the next byte of the same Raw segment with it *)
Fixpoint esc_closed (s : bytes) : bool :=
  match s with
  | EmptyString => true
  | String c r =>
    if aeq c ch_bs then match r with EmptyString => false | String _ r' => esc_closed r' end
    else esc_closed r
  end.

Fixpoint ends_with_bs (s : bytes) : bool :=
  match s with
  | EmptyString => false
  | String c EmptyString => aeq c ch_bs
  | String _ r => ends_with_bs r
  end.

(* --- for the quote rewrite ---
   Raw: no quote byte (brackets, backslashes, anything else allowed)
   SQ : a MySQL string body        BT : a backtick-identifier body
   DQ : ANY name (quotes of all three kinds, brackets, backslashes) except one that ends in a
        backslash: the dialect spells a double quote as backslash + double quote and has no
        spelling for a backslash, so such a name followed by the closing quote cannot be written. *)
Definition wf_quotes_seg (x : seg) : bool :=
  match x with
  | Raw s => all_bytes (fun c => negb (is_quote c)) s
  | SQ s => body_ok ch_sq s
  | BT s => bt_ok s
  | DQ n => negb (ends_with_bs n)
  | Open | Close => true
  end.
Definition wf_quotes (d : doc) : bool := forallb wf_quotes_seg d.

(* --- for the array rewrite, on a text whose DQ identifiers are spelled in style q ---
   Raw: no quote and no bracket byte (brackets are Open / Close), backslashes paired inside
   SQ : a MySQL string body        BT : a backtick-identifier body (a backslash is an ordinary byte)
   DQ : in MySQL spelling ANY name; in PG spelling (the array rewrite applied to text that still
        has its double quotes, e.g. IdiomaticArrays alone, where MySQL reads a double-quoted
        string) the spelled body must be a MySQL string body. *)
Definition wf_arrays_seg (q : qstyle) (x : seg) : bool :=
  match x with
  | Raw s => all_bytes (fun c => negb (is_quote c) && negb (is_bracket c)) s && esc_closed s
  | SQ s => body_ok ch_sq s
  | BT s => bt_ok s
  | DQ n => match q with MY => true | PG => body_ok ch_dq (enc_dq n) end
  | Open | Close => true
  end.
Definition wf_arrays (q : qstyle) (d : doc) : bool := forallb (wf_arrays_seg q) d.

(* both, for the pipeline in either order *)
Definition wf (d : doc) : bool := wf_quotes d && wf_arrays PG d && wf_arrays MY d.

(* brackets are balanced: never more Close than Open so far, equal at the end; any depth *)
Fixpoint bal (depth : nat) (d : doc) : bool :=
  match d with
  | [] => Nat.eqb depth 0
  | Open :: r => bal (S depth) r
  | Close :: r => match depth with O => false | S k => bal k r end
  | _ :: r => bal depth r
  end.
Definition balanced (d : doc) : bool := bal 0 d.

Definition has_dq (d : doc) : bool := existsb (fun x => match x with DQ _ => true | _ => false end) d.

(* deepest bracket nesting reached (for the non-vacuity example and the harness tags) *)
Fixpoint max_depth (depth : nat) (d : doc) : nat :=
  match d with
  | [] => depth
  | Open :: r => Nat.max (S depth) (max_depth (S depth) r)
  | Close :: r => max_depth (Nat.pred depth) r
  | _ :: r => Nat.max depth (max_depth depth r)
  end.
