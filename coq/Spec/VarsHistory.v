(* Spec/VarsHistory.v — what a select list over a table DENOTES as a register history
   (Spec/RegisterSpec.v), in the order the property states: rows in source order, and within a row
   the select items left to right.

     SETVAR(k, e)        one  RSet  on the register named by k's value on this row; the value is e's
                         value on this row, where a GETVAR(j) inside e denotes the contents of
                         register j at that moment;
     GETVAR(k) AS name   one  RGet;
     e AS name           no operation;
     an item whose register name / pure value cannot be computed on this row:  RAbort;
     CASE WHEN c1 THEN b1 ... [ELSE b] END AS name
                         one  RCase: each guard is the truth value of ci on this row, where a
                         GETVAR(j) inside ci denotes the contents of register j at that moment (a
                         ci that is not a truth value: the guard fails); the action of a branch
                         SETVAR(k, e) is the write a SETVAR item denotes, that of a call-free
                         branch e is nothing (or a failure, if e cannot be computed on this row);
                         without ELSE the last action is nothing.

   [assemble] rebuilds the output rows from the values the history read: a GETVAR item contributes
   its read under its name, a pure item its value, a SETVAR item nothing; a CASE item consumes the
   recorded outcomes of its guards, which tell the branch taken: a call-free branch contributes its
   value under the item's name, a SETVAR branch nothing, no branch (no ELSE) contributes NULL. *)
From GenqlV Require Import Base.Prelude Base.Value Model.Ast Model.Eval Model.Vars Spec.RegisterSpec.

Local Open Scope list_scope.

Definition opt {A} (x : res A) : option A := match x with Ok a => Some a | _ => None end.

Section Hist.
  Variable Q : Type.
  Variable data : value.

  (* GETVAR(k) inside an expression, read against a register file *)
  Definition call_regs (r : regs) : string -> string -> list value -> row -> res raw :=
    fun qual name args _ =>
      if (String.eqb qual "" && String.eqb name "getvar")%bool then
        match args with
        | [a] => let! k := key_of a in Ok (RVal (rd r k))
        | _ => Err
        end
      else OutOfModel.
  Definition env_regs (r : regs) : env Q := mk_env data (call_regs r).

  (* the register a key expression names on this row *)
  Definition key_at (cur : row) (k : expr Q) : option string :=
    opt (let! kv := arg (env_pure data) cur k in key_of kv).

  (* the value of a call-free item on this row (None inside: the item yields no column) *)
  Definition pure_val (cur : row) (e : expr Q) : res (option value) :=
    let! x := eval (env_pure data) cur e in
    match x with
    | ROmit => Ok None
    | _ => let! v := value_of cur x in Ok (Some v)
    end.

  (* the truth value of a condition on this row, read against a register file *)
  Definition guard_at (cur : row) (c : expr Q) : regs -> option bool :=
    fun r => opt (let! rc := eval (env_regs r) cur c in
                  match rc with RVal (VBool b) => Ok b | _ => Err end).

  Definition act_at (cur : row) (b : branch Q) : act :=
    match b with
    | BExpr e => match pure_val cur e with Ok _ => ANone | _ => AFail end
    | BSet k e =>
        match key_at cur k with
        | Some ks => AWrite ks (fun r => opt (arg (env_regs r) cur e))
        | None => AFail
        end
    end.

  Definition els_at (cur : row) (els : option (branch Q)) : act :=
    match els with Some b => act_at cur b | None => ANone end.

  Definition ops (cur : row) (it : item Q) : history :=
    match it with
    | VSet k e =>
        match key_at cur k with
        | Some ks => [RSet ks (fun r => opt (arg (env_regs r) cur e))]
        | None => [RAbort]
        end
    | VGet k _ =>
        match key_at cur k with
        | Some ks => [RGet ks]
        | None => [RAbort]
        end
    | VPure e _ =>
        match pure_val cur e with
        | Ok _ => []
        | _ => [RAbort]
        end
    | VCase whens els _ =>
        [RCase (map (fun w => (guard_at cur (fst w), act_at cur (snd w))) whens) (els_at cur els)]
    end.

  Definition row_history (items : list (item Q)) (cur : row) : history := flat_map (ops cur) items.

  (* rows in source order, items left to right *)
  Definition query_history (items : list (item Q)) (rows : list row) : history :=
    flat_map (row_history items) rows.

  (* the branch a CASE item took, from the recorded outcomes of its guards (one per guard computed,
     the last one true unless all were false); None: no branch (all false, no ELSE) *)
  Fixpoint taken (whens : list (expr Q * branch Q)) (els : option (branch Q)) (reads : list value)
    : option (branch Q) * list value :=
    match whens with
    | [] => (els, reads)
    | (_, b) :: r =>
        match reads with
        | VBool true :: reads' => (Some b, reads')
        | _ :: reads' => taken r els reads'
        | [] => (None, [])
        end
    end.

  (* the column a taken branch contributes *)
  Definition branch_val (cur : row) (b : option (branch Q)) : option value :=
    match b with
    | Some (BExpr e) => match pure_val cur e with Ok (Some v) => Some v | _ => None end
    | Some (BSet _ _) => None
    | None => Some VNull
    end.

  (* output row from the values read; returns the reads not consumed *)
  Fixpoint assemble_row (cur : row) (items : list (item Q)) (reads : list value) (acc : row)
    : row * list value :=
    match items with
    | [] => (acc, reads)
    | VSet _ _ :: r => assemble_row cur r reads acc
    | VGet _ name :: r =>
        match reads with
        | v :: reads' => assemble_row cur r reads' (obj_set name v acc)
        | [] => assemble_row cur r [] acc
        end
    | VPure e name :: r =>
        match pure_val cur e with
        | Ok (Some v) => assemble_row cur r reads (obj_set name v acc)
        | _ => assemble_row cur r reads acc
        end
    | VCase whens els name :: r =>
        let '(b, reads') := taken whens els reads in
        match branch_val cur b with
        | Some v => assemble_row cur r reads' (obj_set name v acc)
        | None => assemble_row cur r reads' acc
        end
    end.

  Fixpoint assemble (items : list (item Q)) (rows : list row) (reads : list value)
    : list row * list value :=
    match rows with
    | [] => ([], reads)
    | cur :: r =>
        let '(o, reads') := assemble_row cur items reads [] in
        let '(os, reads'') := assemble items r reads' in
        (o :: os, reads'')
    end.

  (* the column names a select list CAN produce: every item but the SETVARs (a CASE item produces
     its column on the rows where the branch taken is not a SETVAR) *)
  Fixpoint item_names (items : list (item Q)) : list string :=
    match items with
    | [] => []
    | VSet _ _ :: r => item_names r
    | VGet _ name :: r => name :: item_names r
    | VPure _ name :: r => name :: item_names r
    | VCase _ _ name :: r => name :: item_names r
    end.

  (* select lists without CASE items: every row has the same columns *)
  Fixpoint case_free (items : list (item Q)) : Prop :=
    match items with
    | [] => True
    | VCase _ _ _ :: _ => False
    | _ :: r => case_free r
    end.

  (* the column an item produces on this row, the map being [m] when the item is reached: a CASE
     item produces none exactly when the branch it takes ([pick], Model/Vars.v) is a SETVAR *)
  Definition item_cols (m : vars) (cur : row) (it : item Q) : list string :=
    match it with
    | VSet _ _ => []
    | VGet _ name => [name]
    | VPure _ name => [name]
    | VCase whens els name =>
        match pick data m cur whens els with
        | Ok (Some (BSet _ _)) => []
        | _ => [name]
        end
    end.

  (* ... of a select list: the map each item finds is the one its predecessors left *)
  Fixpoint row_cols (m : vars) (cur : row) (items : list (item Q)) : list string :=
    match items with
    | [] => []
    | it :: r => item_cols m cur it ++ row_cols (snd (run_item data m cur [] it)) cur r
    end.

  (* ... of a table: the map each row finds is the one the rows before it left *)
  Fixpoint rows_cols (m : vars) (items : list (item Q)) (rows : list row) : list (list string) :=
    match rows with
    | [] => []
    | cur :: r => row_cols m cur items :: rows_cols (snd (run_row data m cur items [])) items r
    end.

  (* several queries one after the other *)
  Definition seq_history (qs : list (list (item Q) * list row)) : history :=
    flat_map (fun q => query_history (fst q) (snd q)) qs.

  Fixpoint assemble_seq (qs : list (list (item Q) * list row)) (reads : list value)
    : list (list row) :=
    match qs with
    | [] => []
    | (items, rows) :: r =>
        let '(o, reads') := assemble items rows reads in o :: assemble_seq r reads'
    end.
End Hist.

Arguments guard_at {Q}. Arguments act_at {Q}. Arguments els_at {Q}. Arguments taken {Q}.
Arguments branch_val {Q}. Arguments case_free {Q}. Arguments item_cols {Q}. Arguments row_cols {Q}.
Arguments rows_cols {Q}.
Arguments env_regs {Q}. Arguments key_at {Q}. Arguments pure_val {Q}. Arguments ops {Q}.
Arguments row_history {Q}. Arguments query_history {Q}. Arguments assemble_row {Q}.
Arguments assemble {Q}. Arguments item_names {Q}. Arguments seq_history {Q}.
Arguments assemble_seq {Q}.

(* the register file a store stands for *)
Definition abs (st : store) : regs := fun k => lookup k st.
