(* Spec/VarsHistory.v — what a select list over a table DENOTES as a register history
   (Spec/RegisterSpec.v), in the order the property states: rows in source order, and within a row
   the select items left to right.

     SETVAR(k, e)        one  RSet  on the register named by k's value on this row; the value is e's
                         value on this row, where a GETVAR(j) inside e denotes the contents of
                         register j at that moment;
     GETVAR(k) AS name   one  RGet;
     e AS name           no operation;
     an item whose register name / pure value cannot be computed on this row:  RAbort.

   [assemble] rebuilds the output rows from the values the history read: a GETVAR item contributes
   its read under its name, a pure item its value, a SETVAR item nothing. *)
From GenqlV Require Import Base.Prelude Base.Value Model.Ast Model.Eval Model.Vars Spec.RegisterSpec.

Definition opt {A} (x : res A) : option A := match x with Ok a => Some a | _ => None end.

Section Hist.
  Variable Q : Type.
  Variable data : value.

  (* GETVAR(k) inside an expression, read against a register file *)
  Definition call_regs (r : regs) : string -> string -> list value -> row -> res raw :=
    fun qual name args _ =>
      if (String.eqb qual "" && String.eqb name "getvar")%bool then
        match args with
        | [a] => let! k := key_of a in Ok (RVal (rd r k))
        | _ => Err
        end
      else OutOfModel.
  Definition env_regs (r : regs) : env Q := mk_env data (call_regs r).

  (* the register a key expression names on this row *)
  Definition key_at (cur : row) (k : expr Q) : option string :=
    opt (let! kv := arg (env_pure data) cur k in key_of kv).

  (* the value of a call-free item on this row (None inside: the item yields no column) *)
  Definition pure_val (cur : row) (e : expr Q) : res (option value) :=
    let! x := eval (env_pure data) cur e in
    match x with
    | ROmit => Ok None
    | _ => let! v := value_of cur x in Ok (Some v)
    end.

  Definition ops (cur : row) (it : item Q) : history :=
    match it with
    | VSet k e =>
        match key_at cur k with
        | Some ks => [RSet ks (fun r => opt (arg (env_regs r) cur e))]
        | None => [RAbort]
        end
    | VGet k _ =>
        match key_at cur k with
        | Some ks => [RGet ks]
        | None => [RAbort]
        end
    | VPure e _ =>
        match pure_val cur e with
        | Ok _ => []
        | _ => [RAbort]
        end
    end.

  Definition row_history (items : list (item Q)) (cur : row) : history := flat_map (ops cur) items.

  (* rows in source order, items left to right *)
  Definition query_history (items : list (item Q)) (rows : list row) : history :=
    flat_map (row_history items) rows.

  (* output row from the values read; returns the reads not consumed *)
  Fixpoint assemble_row (cur : row) (items : list (item Q)) (reads : list value) (acc : row)
    : row * list value :=
    match items with
    | [] => (acc, reads)
    | VSet _ _ :: r => assemble_row cur r reads acc
    | VGet _ name :: r =>
        match reads with
        | v :: reads' => assemble_row cur r reads' (obj_set name v acc)
        | [] => assemble_row cur r [] acc
        end
    | VPure e name :: r =>
        match pure_val cur e with
        | Ok (Some v) => assemble_row cur r reads (obj_set name v acc)
        | _ => assemble_row cur r reads acc
        end
    end.

  Fixpoint assemble (items : list (item Q)) (rows : list row) (reads : list value)
    : list row * list value :=
    match rows with
    | [] => ([], reads)
    | cur :: r =>
        let '(o, reads') := assemble_row cur items reads [] in
        let '(os, reads'') := assemble items r reads' in
        (o :: os, reads'')
    end.

  (* the column names a select list produces: every item but the SETVARs *)
  Fixpoint item_names (items : list (item Q)) : list string :=
    match items with
    | [] => []
    | VSet _ _ :: r => item_names r
    | VGet _ name :: r => name :: item_names r
    | VPure _ name :: r => name :: item_names r
    end.

  (* several queries one after the other *)
  Definition seq_history (qs : list (list (item Q) * list row)) : history :=
    flat_map (fun q => query_history (fst q) (snd q)) qs.

  Fixpoint assemble_seq (qs : list (list (item Q) * list row)) (reads : list value)
    : list (list row) :=
    match qs with
    | [] => []
    | (items, rows) :: r =>
        let '(o, reads') := assemble items rows reads in o :: assemble_seq r reads'
    end.
End Hist.

Arguments env_regs {Q}. Arguments key_at {Q}. Arguments pure_val {Q}. Arguments ops {Q}.
Arguments row_history {Q}. Arguments query_history {Q}. Arguments assemble_row {Q}.
Arguments assemble {Q}. Arguments item_names {Q}. Arguments seq_history {Q}.
Arguments assemble_seq {Q}.

(* the register file a store stands for *)
Definition abs (st : store) : regs := fun k => lookup k st.
