(* Spec/DistinctSpec.v — textbook specification for C06, written from the property text:

     "SELECT DISTINCT returns each distinct output row exactly once, at the position of its first
      occurrence.  A UNION ALL B returns the rows of A followed by the rows of B, A UNION B returns
      that concatenation with duplicate rows removed, chains of three or more branches associate
      accordingly, and a LIMIT on the union applies to the combined result."

   Nothing here mentions the engine's algorithm (a set of fingerprints seen so far).  Stdlib only. *)
From Coq Require Import List Bool.
Import ListNotations.

Section NodupFirst.
  Variable A : Type.
  Variable eqb : A -> A -> bool.     (* "is the same row": a decidable equivalence *)

  (* duplicate elimination that keeps the first occurrence: the head stays, every later row equal
     to it goes, and the same is done to what remains.  Order is that of the input. *)
  Fixpoint nodup_first (l : list A) : list A :=
    match l with
    | [] => []
    | x :: r => x :: filter (fun y => negb (eqb x y)) (nodup_first r)
    end.

  (* the same thing said position by position: the row at index [i] is kept iff no row at an index
     [j < i] is equal to it.  [keep_firsts earlier l] walks [l] with the rows before it in hand. *)
  Fixpoint keep_firsts (earlier l : list A) : list A :=
    match l with
    | [] => []
    | x :: r => (if existsb (fun y => eqb y x) earlier then [] else [x]) ++ keep_firsts (earlier ++ [x]) r
    end.

  (* [s] is [l] with some elements struck out (relative order untouched) *)
  Inductive subseq : list A -> list A -> Prop :=
  | sub_nil : subseq [] []
  | sub_skip x s l : subseq s l -> subseq s (x :: l)
  | sub_take x s l : subseq s l -> subseq (x :: s) (x :: l).

  (* no two members of the list are the same row *)
  Inductive all_distinct : list A -> Prop :=
  | ad_nil : all_distinct []
  | ad_cons x l : (forall y, In y l -> eqb x y = false) -> all_distinct l -> all_distinct (x :: l).

  (* the laws an "is the same row" test has to obey *)
  Record equivalence_b : Prop := {
    eqb_refl : forall a, eqb a a = true;
    eqb_sym : forall a b, eqb a b = eqb b a;
    eqb_trans : forall a b c, eqb a b = true -> eqb b c = true -> eqb a c = true
  }.
End NodupFirst.

Arguments nodup_first {A}. Arguments keep_firsts {A}. Arguments subseq {A}. Arguments all_distinct {A}.
Arguments equivalence_b {A}.
Arguments eqb_refl {A eqb}. Arguments eqb_sym {A eqb}. Arguments eqb_trans {A eqb}.

(* ------------------------------------------------------------------ *)
(* UNION chains                                                          *)
(* ------------------------------------------------------------------ *)

Section UnionSpec.
  Variable A : Type.
  Variable eqb : A -> A -> bool.

  (* A UNION ALL B  /  A UNION B *)
  Definition union_spec (all : bool) (a b : list A) : list A :=
    if all then a ++ b else nodup_first eqb (a ++ b).

  (* A0 op1 A1 op2 A2 ... associates to the left: ((A0 op1 A1) op2 A2) ...; each [opi] is UNION ALL
     ([true]) or UNION ([false]) *)
  Definition union_chain_spec (first : list A) (rest : list (bool * list A)) : list A :=
    fold_left (fun acc br => union_spec (fst br) acc (snd br)) rest first.

  (* LIMIT n OFFSET m on a list (both present and non-negative) *)
  Definition limit_spec (limit offset : nat) (l : list A) : list A := firstn limit (skipn offset l).
End UnionSpec.

Arguments union_spec {A}. Arguments union_chain_spec {A}. Arguments limit_spec {A}.
