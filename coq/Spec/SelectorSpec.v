(* Spec/SelectorSpec.v — the selector language as the README documents it: an abstract syntax,
   its concrete text, and a denotation.  Written from the documentation, not from the code:

     key            descends an object; over an array it is applied to every element
                    ("Selectors automatically handle arrays and nesting"); a missing key is NULL
     [d1:d2:...]    one index per successive dimension; a number is that element, `each` iterates
                    the dimension, (m:n) is the slice from m up to n, `begin` / `end` are the edges;
                    the result is flattened by (number of dimensions - 1) levels ...
     [keep=>...]    ... unless `keep=>` asks to keep the array structure
     {k|type, ...}  a new object with the listed keys, converted to `string` or `number`
     'key'          a quoted key is taken literally
     a::b           continue with the result: b applied to the result of a
     fn=>a          the registered top-level function fn applied to the result of a
   Applying a step to a value of the wrong shape, or an index / bound outside the array, is an
   error.  NULL is absorbing for every step.

   What "converted to string / number" and the registered functions compute is not the subject of
   this specification: the conversions are the oracles of Model/SelFmt.v and the function table
   is a parameter [reg]. *)
From GenqlV Require Import Base.Prelude Base.Fmt Base.Value Model.SelFmt.
Local Open Scope string_scope.

(* ---------- abstract syntax ---------- *)

Inductive dim :=
| DEach
| DAt (n : N)
| DRange (b e : option N).        (* None = begin / end *)

Inductive ptyp := PNone | PString | PNumber.

Inductive step :=
| Key (k : string)
| Index (ds : list dim)
| Keep (ds : list dim)
| Pipe (ps : list (string * ptyp)).

(* one `::`-free selector: an optional top-level function applied to a path *)
Record seg := Fn { seg_fn : option string; seg_steps : list step }.

(* segments joined by `::` *)
Definition sel := list seg.
Definition Then (a b : sel) : sel := (a ++ b)%list.
Definition Path (steps : list step) : sel := [Fn None steps].

(* ---------- concrete syntax ---------- *)

Definition ident_char (c : ascii) : bool :=
  let n := nat_of_ascii c in
  (Nat.leb 48 n && Nat.leb n 57) || (Nat.leb 65 n && Nat.leb n 90) ||
  (Nat.leb 97 n && Nat.leb n 122) || Nat.eqb n 95.

Fixpoint all_chars (p : ascii -> bool) (s : string) : bool :=
  match s with EmptyString => true | String c r => p c && all_chars p r end.

Definition is_ident (s : string) : bool :=
  match s with EmptyString => false | _ => all_chars ident_char s end.

Fixpoint join (sep : string) (l : list string) : string :=
  match l with
  | [] => EmptyString
  | [x] => x
  | x :: r => x ++ sep ++ join sep r
  end.

Definition print_bound (kw : string) (b : option N) : string :=
  match b with None => kw | Some n => N_to_dec n end.

Definition print_dim (d : dim) : string :=
  match d with
  | DEach => "each"
  | DAt n => N_to_dec n
  | DRange b e => "(" ++ print_bound "begin" b ++ ":" ++ print_bound "end" e ++ ")"
  end.

Definition print_dims (ds : list dim) : string := join ":" (map print_dim ds).

Definition print_key (k : string) : string :=
  if is_ident k then k else "'" ++ k ++ "'".

Definition print_pipe (p : string * ptyp) : string :=
  match snd p with
  | PNone => fst p
  | PString => print_key (fst p) ++ "|string"
  | PNumber => print_key (fst p) ++ "|number"
  end.

(* a key is written after a dot, except at the very beginning *)
Definition print_step (first : bool) (st : step) : string :=
  match st with
  | Key k => (if first then "" else ".") ++ print_key k
  | Index ds => "[" ++ print_dims ds ++ "]"
  | Keep ds => "[keep=>" ++ print_dims ds ++ "]"
  | Pipe ps => "{" ++ join ", " (map print_pipe ps) ++ "}"
  end.

Fixpoint print_rest (l : list step) : string :=
  match l with
  | [] => EmptyString
  | st :: r => print_step false st ++ print_rest r
  end.

Definition print_steps (l : list step) : string :=
  match l with
  | [] => EmptyString
  | st :: r => print_step true st ++ print_rest r
  end.

Definition print_seg (g : seg) : string :=
  match seg_fn g with
  | Some f => f ++ "=>" ++ print_steps (seg_steps g)
  | None => print_steps (seg_steps g)
  end.

Definition print_sel (a : sel) : string := join "::" (map print_seg a).

(* ---------- well-formed syntax: what the documented grammar can express ---------- *)

Definition starts_colon (s : string) : bool :=
  match s with String c _ => Ascii.eqb c ":" | EmptyString => false end.

(* the text contains "::" *)
Fixpoint has_dcolon (s : string) : bool :=
  match s with
  | String c r => (Ascii.eqb c ":" && starts_colon r) || has_dcolon r
  | EmptyString => false
  end.

Definition lacks (c : ascii) (s : string) : bool := all_chars (fun x => negb (Ascii.eqb x c)) s.

Definition int_bound : N := (2 ^ 63)%N.       (* indices are Go ints *)

Definition wf_bound (b : option N) : bool :=
  match b with None => true | Some n => (n <? int_bound)%N end.

Definition wf_dim (d : dim) : bool :=
  match d with
  | DEach => true
  | DAt n => (n <? int_bound)%N
  | DRange b e => wf_bound b && wf_bound e
  end.

Definition wf_dims (ds : list dim) : bool :=
  match ds with [] => false | _ => forallb wf_dim ds end.

(* a key: any bytes except a quote, and no "::" (which always separates selectors) *)
Definition wf_key (k : string) : bool := lacks "'" k && negb (has_dcolon k).

Definition wf_pipe (p : string * ptyp) : bool :=
  match snd p with
  | PNone => is_ident (fst p)         (* a quoted key needs a type: {'a b'} is not in the grammar *)
  | _ => wf_key (fst p) && lacks "|" (fst p) && lacks "{" (fst p) && lacks "}" (fst p)
  end.

Definition wf_step (st : step) : bool :=
  match st with
  | Key k => wf_key k
  | Index ds => wf_dims ds
  | Keep ds => wf_dims ds
  | Pipe ps => forallb wf_pipe ps
  end.

Definition wf_seg (g : seg) : bool :=
  match seg_fn g with Some f => is_ident f | None => true end && forallb wf_step (seg_steps g).

Definition wf_sel (a : sel) : bool :=
  match a with [] => false | _ => forallb wf_seg a end.

(* ---------- denotation ---------- *)

Definition or_null (o : option value) : value := match o with Some v => v | None => VNull end.

(* flatten n levels of nesting; anything that is not an array is kept *)
Fixpoint flatten_n (n : nat) (l : list value) : list value :=
  match n with
  | O => l
  | S k => flat_map (fun x => match x with VArr l' => flatten_n k l' | _ => [x] end) l
  end.

Definition opt_N (d : N) (o : option N) : N := match o with Some n => n | None => d end.

(* successive dimensions *)
Fixpoint dims_sem (ds : list dim) (v : value) : res value :=
  match ds with
  | [] => Ok v
  | d :: rest =>
      match v with
      | VArr l =>
          let len := N.of_nat (List.length l) in
          match d with
          | DAt n =>
              if (n <? len)%N
              then match nth_error l (N.to_nat n) with Some x => dims_sem rest x | None => Err end
              else Err                                         (* outside the array *)
          | DEach => let! l' := mapM (dims_sem rest) l in Ok (VArr l')
          | DRange b e =>
              let b := opt_N 0%N b in
              let e := opt_N len e in
              if ((b <=? e) && (e <=? len))%N
              then dims_sem rest (VArr (firstn (N.to_nat (e - b)) (skipn (N.to_nat b) l)))
              else Err                                         (* bound outside the array *)
          end
      | _ => Err                                               (* not an array *)
      end
  end.

Definition bracket_sem (keep : bool) (ds : list dim) (v : value) : res value :=
  let! r := dims_sem ds v in
  if keep then Ok r else
  match r with
  | VArr l => Ok (VArr (flatten_n (List.length ds - 1) l))
  | _ => Ok r
  end.

(* {k|type, ...} on one object *)
Definition convert (t : ptyp) (v : value) : res value :=
  match t with
  | PNone => Ok v
  | PString => let! s := value_to_string v in Ok (VStr s)
  | PNumber => match v with VStr s => let! x := parse_float s in Ok (VNum x) | _ => Err end
  end.

Fixpoint reshape (kvs : list (string * value)) (ps : list (string * ptyp))
                 (acc : list (string * value)) : res (list (string * value)) :=
  match ps with
  | [] => Ok acc
  | (k, t) :: r => let! v := convert t (or_null (lookup k kvs)) in reshape kvs r (obj_set k v acc)
  end.

(* an object step [f]: applied to an object; distributed over the elements of an array;
   NULL stays NULL; anything else has the wrong shape *)
Fixpoint on_objects (f : list (string * value) -> res value) (v : value) : res value :=
  match v with
  | VNull => Ok VNull
  | VObj kvs => f kvs
  | VArr l =>
      let! l' := (fix go (l : list value) : res (list value) :=
                    match l with
                    | [] => Ok []
                    | x :: r => let! y := on_objects f x in let! ys := go r in Ok (y :: ys)
                    end) l in
      Ok (VArr l')
  | _ => Err
  end.

Definition on_array (f : value -> res value) (v : value) : res value :=
  match v with
  | VNull => Ok VNull
  | VArr _ => f v
  | _ => Err
  end.

(* a path: the steps after an object step are part of what is distributed over an array *)
Fixpoint steps_sem (steps : list step) (v : value) : res value :=
  match steps with
  | [] => Ok v
  | Key k :: rest => on_objects (fun kvs => steps_sem rest (or_null (lookup k kvs))) v
  | Pipe ps :: rest => on_objects (fun kvs => let! o := reshape kvs ps [] in steps_sem rest (VObj o)) v
  | Index ds :: rest => on_array (fun a => let! r := bracket_sem false ds a in steps_sem rest r) v
  | Keep ds :: rest => on_array (fun a => let! r := bracket_sem true ds a in steps_sem rest r) v
  end.

Section Registry.
  (* the registered top-level functions *)
  Variable reg : string -> option (value -> res value).

  Definition seg_sem (g : seg) (v : value) : res value :=
    let! r := steps_sem (seg_steps g) v in
    match seg_fn g with
    | None => Ok r
    | Some f => match reg f with Some fn => fn r | None => Err end
    end.

  Fixpoint sel_sem (a : sel) (v : value) : res value :=
    match a with
    | [] => Ok v
    | g :: r => let! x := seg_sem g v in sel_sem r x
    end.
End Registry.
