(* Spec/ExprSem.v — the ordinary meaning of a select-list expression on one row (property C02),
   written directly on JSON values: no engine wrapper type occurs anywhere in this file.

   It is written from the property text, independently of the evaluator in Model/Eval.v:
     * column / nested-path reference: walk the path; a missing key is NULL; a path through an
       array is applied to every element; a path through a scalar is an error;
     * literals denote themselves;
     * + - * / are the IEEE-754 binary64 operations (Coq primitive floats);
       DIV % & | ^ << >> ~ are Go's int64 operations after truncation (helpers of Model/Num.v, which
       ARE the definition of Go's arithmetic here: two's-complement wrap, shift counts >= 64,
       panics for DIV 0 and negative shift counts);
     * operands are evaluated left to right; a NULL operand of a binary arithmetic operator makes
       the result NULL (the other operand is then not inspected); a non-number operand is an error;
     * a NULL operand of a unary operator is an error; - and ~ want a number, ! wants a boolean;
     * CASE: the first WHEN whose condition is true wins; otherwise ELSE; without ELSE, NULL.

   Only the numeric helpers (Model/Num.v) and the JSON value type (Base/Value.v) are imported. *)
From Coq Require Import Floats.
From GenqlV Require Import Base.Prelude Base.Value Model.Ast Model.Num.
Local Open Scope Z_scope.

Definition srow := list (string * value).

(* ------------------------------------------------------------------ *)
(* paths                                                                *)
(* ------------------------------------------------------------------ *)

Definition field (k : string) (kvs : srow) : value :=
  match lookup k kvs with Some v => v | None => VNull end.

Fixpoint path_get (p : list string) : value -> res value :=
  match p with
  | [] => fun v => Ok v
  | k :: rest =>
      fix at_key (v : value) : res value :=
        match v with
        | VNull => Ok VNull
        | VObj kvs => path_get rest (field k kvs)
        | VArr l =>
            let! l' := (fix each (l : list value) : res (list value) :=
                          match l with
                          | [] => Ok []
                          | x :: r => let! y := at_key x in let! ys := each r in Ok (y :: ys)
                          end) l in
            Ok (VArr l')
        | VBool _ | VNum _ | VStr _ => Err
        end
  end.

(* ------------------------------------------------------------------ *)
(* operators on numbers                                                 *)
(* ------------------------------------------------------------------ *)

Definition on_int64 (f : Z -> Z -> res Z) (x y : float) : res float :=
  let! a := to_int64 x in
  let! b := to_int64 y in
  let! c := f a b in
  Ok (of_int64 (wrap64 c)).

Definition sem_binop (op : binop) (x y : float) : res float :=
  match op with
  | BAdd => Ok (PrimFloat.add x y)
  | BSub => Ok (PrimFloat.sub x y)
  | BMul => Ok (PrimFloat.mul x y)
  | BDiv => Ok (PrimFloat.div x y)
  | BIntDiv => on_int64 go_quot x y                         (* DIV 0 panics *)
  | BMod => go_fmod x y
  | BAnd => on_int64 (fun a b => Ok (Z.land a b)) x y
  | BOr => on_int64 (fun a b => Ok (Z.lor a b)) x y
  | BXor => on_int64 (fun a b => Ok (Z.lxor a b)) x y
  | BShl => on_int64 go_shl x y                             (* negative count panics *)
  | BShr => on_int64 go_shr x y
  end.

(* binary arithmetic on two already-denoted operands; [rb] is only inspected when the left operand
   is a number *)
Definition sem_bin (op : binop) (ra rb : res value) : res value :=
  let! x := ra in
  match x with
  | VNull => Ok VNull
  | VNum fx =>
      let! y := rb in
      match y with
      | VNull => Ok VNull
      | VNum fy => let! z := sem_binop op fx fy in Ok (VNum z)
      | _ => Err
      end
  | _ => Err
  end.

Definition sem_un (op : unop) (ra : res value) : res value :=
  let! x := ra in
  match op, x with
  | _, VNull => Err
  | UNeg, VNum f => Ok (VNum (PrimFloat.mul (-1)%float f))   (* the engine computes -1 * x *)
  | UTilde, VNum f => let! n := to_int64 f in Ok (VNum (of_int64 (Z.lnot n)))
  | UBang, VBool b => Ok (VBool (negb b))
  | _, _ => Err
  end.

(* CASE: first true condition wins *)
Section FirstTrue.
  Context {X A : Type}.
  Variable cond : X -> res bool.
  Variable val : X -> res A.
  Variable dflt : res A.
  Fixpoint first_true (ws : list (X * X)) : res A :=
    match ws with
    | [] => dflt
    | (c, v) :: r => let! b := cond c in if b then val v else first_true r
    end.
End FirstTrue.

(* ------------------------------------------------------------------ *)
(* select lists, for any denotation [den] of the item expressions        *)
(* ------------------------------------------------------------------ *)

Section Project.
  Variable Q : Type.
  Variable den : srow -> expr Q -> res value.

  (* the (name, value) bindings one item contributes, in order: `*` contributes the source row *)
  Definition item_bindings (r : srow) (it : sel_item Q) : res (list (string * value)) :=
    match it with
    | IStar => Ok r
    | IExpr e name => let! v := den r e in Ok [(name, v)]
    end.

  Fixpoint bindings (items : list (sel_item Q)) (r : srow) : res (list (string * value)) :=
    match items with
    | [] => Ok []
    | it :: rest =>
        let! b := item_bindings r it in
        let! bs := bindings rest r in
        Ok (b ++ bs)
    end.

  (* the output object: the map built from the bindings in order, so a later binding of a name
     overwrites an earlier one *)
  Definition project (items : list (sel_item Q)) (r : srow) : res (list (string * value)) :=
    let! bs := bindings items r in Ok (obj_of_list bs).

  (* the names a select list produces on a row, in order (with repetitions) *)
  Definition item_names (r : srow) (it : sel_item Q) : list string :=
    match it with IStar => keys r | IExpr _ name => [name] end.
  Definition select_keys (items : list (sel_item Q)) (r : srow) : list string :=
    flat_map (item_names r) items.
End Project.

Arguments item_bindings {Q}. Arguments bindings {Q}. Arguments project {Q}.
Arguments item_names {Q}. Arguments select_keys {Q}.

(* ------------------------------------------------------------------ *)
(* the denotation, open in the meaning of CASE conditions               *)
(* ------------------------------------------------------------------ *)

Section Sem.
  Variable Q : Type.

  (* the meaning of a predicate used as a CASE condition on a row (the subject of property C01) *)
  Variable csem : srow -> expr Q -> res bool.

  Fixpoint sem_expr (r : srow) (e : expr Q) {struct e} : res value :=
    match e with
    | ECol p => path_get p (VObj r)
    | ENum f => Ok (VNum f)
    | EStr s => Ok (VStr s)
    | EBool b => Ok (VBool b)
    | ENull => Ok VNull
    | EBin op a b => sem_bin op (sem_expr r a) (sem_expr r b)
    | EUn op a => sem_un op (sem_expr r a)
    | ECase whens els =>
        first_true (csem r) (sem_expr r)
                   (match els with None => Ok VNull | Some x => sem_expr r x end) whens
    | _ => OutOfModel        (* not an expression of the C02 grammar *)
    end.

  (* the C02 grammar: references, literals, binary / unary operators, CASE (conditions arbitrary) *)
  Fixpoint is_c02 (e : expr Q) : bool :=
    match e with
    | ECol _ | ENum _ | EStr _ | EBool _ | ENull => true
    | EBin _ a b => is_c02 a && is_c02 b
    | EUn _ a => is_c02 a
    | ECase whens els =>
        forallb (fun cv => is_c02 (snd cv)) whens &&
        match els with None => true | Some x => is_c02 x end
    | _ => false
    end.

  (* the CASE conditions that occur in value position (conditions nested inside a condition belong
     to that condition) *)
  Fixpoint case_conds (e : expr Q) : list (expr Q) :=
    match e with
    | EBin _ a b => case_conds a ++ case_conds b
    | EUn _ a => case_conds a
    | ECase whens els =>
        flat_map (fun cv => fst cv :: case_conds (snd cv)) whens ++
        match els with None => [] | Some x => case_conds x end
    | _ => []
    end.

  (* ---------------- select list ---------------- *)

  Definition sem_item (r : srow) (it : sel_item Q) := item_bindings sem_expr r it.
  Definition sem_bindings (items : list (sel_item Q)) (r : srow) := bindings sem_expr items r.
  Definition sem_project (items : list (sel_item Q)) (r : srow) : res (list (string * value)) :=
    project sem_expr items r.

  Definition c02_item (it : sel_item Q) : bool :=
    match it with IStar => true | IExpr e _ => is_c02 e end.
  Definition c02_items (items : list (sel_item Q)) : bool := forallb c02_item items.

  Definition item_conds (it : sel_item Q) : list (expr Q) :=
    match it with IStar => [] | IExpr e _ => case_conds e end.
  Definition items_conds (items : list (sel_item Q)) : list (expr Q) := flat_map item_conds items.
End Sem.

Arguments sem_expr {Q}. Arguments is_c02 {Q}. Arguments case_conds {Q}.
Arguments sem_item {Q}. Arguments sem_bindings {Q}. Arguments sem_project {Q}.
Arguments c02_item {Q}. Arguments c02_items {Q}. Arguments item_conds {Q}. Arguments items_conds {Q}.

(* ------------------------------------------------------------------ *)
(* a closed instance: conditions built from the boolean operators,       *)
(* comparisons and IS [NOT] NULL over C02 expressions                    *)
(* ------------------------------------------------------------------ *)

Definition want_bool (r : res value) : res bool :=
  let! v := r in match v with VBool b => Ok b | _ => Err end.

Definition sem_cmp (op : cmpop) (c : Z) : bool :=
  match op with
  | OpEq => c =? 0 | OpNe => negb (c =? 0)
  | OpLt => c =? -1 | OpLe => c <=? 0
  | OpGt => c =? 1 | OpGe => 0 <=? c
  end.

Section Closed.
  Variable Q : Type.

  (* values and the conditions over them in one denotation; [vcompare] is the value order of
     Base/Value.v (property C15) *)
  Fixpoint sem_x (r : srow) (e : expr Q) {struct e} : res value :=
    match e with
    | ECol p => path_get p (VObj r)
    | ENum f => Ok (VNum f)
    | EStr s => Ok (VStr s)
    | EBool b => Ok (VBool b)
    | ENull => Ok VNull
    | EBin op a b => sem_bin op (sem_x r a) (sem_x r b)
    | EUn op a => sem_un op (sem_x r a)
    | ECase whens els =>
        first_true (fun c => want_bool (sem_x r c)) (sem_x r)
                   (match els with None => Ok VNull | Some x => sem_x r x end) whens
    | EAnd a b =>
        let! x := want_bool (sem_x r a) in let! y := want_bool (sem_x r b) in Ok (VBool (x && y))
    | EOr a b =>
        let! x := want_bool (sem_x r a) in let! y := want_bool (sem_x r b) in Ok (VBool (x || y))
    | ENot a => let! x := want_bool (sem_x r a) in Ok (VBool (negb x))
    | ECmp op a b =>
        let! x := sem_x r a in let! y := sem_x r b in
        let! c := vcompare x y in Ok (VBool (sem_cmp op c))
    | EIs IsNull a =>
        let! x := sem_x r a in Ok (VBool (match x with VNull => true | _ => false end))
    | EIs IsNotNull a =>
        let! x := sem_x r a in Ok (VBool (match x with VNull => false | _ => true end))
    | _ => OutOfModel
    end.

  (* syntactically a predicate: its result is a boolean produced by an operator, never a stored
     value (the engine rejects a bare column as a CASE condition) *)
  Definition is_pred (e : expr Q) : bool :=
    match e with
    | EBool _ | EUn UBang _ | EAnd _ _ | EOr _ _ | ENot _ | ECmp _ _ _
    | EIs IsNull _ | EIs IsNotNull _ => true
    | _ => false
    end.

  (* a column path whose first component is an ordinary key (not the backward-navigation marker) *)
  Definition plain_path (p : list string) : bool :=
    match p with k :: _ => negb (String.eqb k "<-") | [] => false end.

  (* the closed grammar; column paths do not start with the backward-navigation marker *)
  Fixpoint is_c02x (e : expr Q) : bool :=
    match e with
    | ECol p => plain_path p
    | ENum _ | EStr _ | EBool _ | ENull => true
    | EBin _ a b => is_c02x a && is_c02x b
    | EUn _ a => is_c02x a
    | ECase whens els =>
        forallb (fun cv => is_pred (fst cv) && is_c02x (fst cv) && is_c02x (snd cv)) whens &&
        match els with None => true | Some x => is_c02x x end
    | EAnd a b | EOr a b => is_c02x a && is_c02x b
    | ENot a => is_c02x a
    | ECmp _ a b => is_c02x a && is_c02x b
    | EIs IsNull a | EIs IsNotNull a => is_c02x a
    | _ => false
    end.

  Definition sem_project_x (items : list (sel_item Q)) (r : srow) : res (list (string * value)) :=
    project sem_x items r.

  Definition c02x_item (it : sel_item Q) : bool :=
    match it with IStar => true | IExpr e _ => is_c02x e end.
  Definition c02x_items (items : list (sel_item Q)) : bool := forallb c02x_item items.
End Closed.

Arguments sem_x {Q}. Arguments is_pred {Q}. Arguments is_c02x {Q}.
Arguments sem_project_x {Q}.
Arguments c02x_item {Q}. Arguments c02x_items {Q}.
