(* Spec/WindowSpec.v — what LIMIT n OFFSET m must return (property C05), written from the property
   text: "exactly the elements at positions m .. m+n-1 of that sequence that exist - fewer, possibly
   none, when the sequence is shorter - and never an error, padding or elements from outside the
   sequence".  Independent of the slice arithmetic of the engine. *)
From GenqlV Require Import Base.Prelude.
Local Open Scope Z_scope.

(* a LIMIT / OFFSET number is absent or a non-negative integer (the parser produces nothing else) *)
Definition bound_ok (o : option Z) : Prop :=
  match o with Some z => 0 <= z | None => True end.

(* absent OFFSET = 0, absent LIMIT = everything that is left *)
Definition window_spec {A} (rows : list A) (limit offset : option Z) : list A :=
  let rest := skipn (match offset with Some o => Z.to_nat o | None => O end) rows in
  match limit with
  | Some l => firstn (Z.to_nat l) rest
  | None => rest
  end.

(* the same thing position by position: element i of the window is element m+i of the sequence, for
   i < n, and nothing else *)
Definition window_at {A} (rows : list A) (limit offset : option Z) (i : nat) : option A :=
  let m := match offset with Some o => Z.to_nat o | None => O end in
  match limit with
  | Some l => if (i <? Z.to_nat l)%nat then nth_error rows (m + i) else None
  | None => nth_error rows (m + i)
  end.
