#!/usr/bin/env python3
"""Re-runs the sweep survivors that bin/sweep_summary.py leaves OPEN with the CURRENT harness and the current HEAD of
/repo (private worktree + harness copy under /tmp/msweep-r), against every check mapped to the mutated function, and
appends the outcome to notes/mutation_sweep/recheck.jsonl (which sweep_summary.py reads after the lane logs)."""
import glob, importlib.util, json, os, re, shutil, sys
ROOT = os.path.dirname(os.path.dirname(os.path.abspath(__file__)))
def load(name, path):
    spec = importlib.util.spec_from_file_location(name, path); m = importlib.util.module_from_spec(spec); spec.loader.exec_module(m); return m
ms = load("ms", os.path.join(ROOT, "bin", "mutation_sweep.py"))
ss = load("ss", os.path.join(ROOT, "bin", "sweep_summary.py"))
EXTRA = {"Expr": ["C02", "C01", "C05"], "BuildOrder": ["C05"], "BuildFromAliasedTable": ["C02", "C07", "C12"], "exec": ["C02", "C05", "C08", "C01", "C14"],
         "FunExpr": ["C14", "C19", "C10"], "BuildCte": ["C07", "C10", "C11"], "hashJoinAnalyze": ["C04"], "extractJoinColumns": ["C04"], "removeDuplicates": ["C04"],
         "ToCatalog": ["C04"], "extractColumnsFromExpr": ["C04"], "ParseSelector": ["C09", "C10"], "DoubleQuotesToBackTick": ["C17"]}

def main():
    work = "/tmp/msweep-r"
    shutil.rmtree(work, ignore_errors=True); os.makedirs(work)
    repo, harness = work + "/repo", work + "/harness"
    ms.sh(["git", "-C", "/repo", "worktree", "prune"])
    print(ms.sh(["git", "-C", "/repo", "worktree", "add", "--detach", repo, "HEAD"])[1].strip())
    shutil.copytree(ROOT + "/harness", harness)
    gm = open(harness + "/go.mod").read().replace("=> /repo", "=> " + repo); open(harness + "/go.mod", "w").write(gm)
    shutil.copyfile(repo + "/go.sum", harness + "/go.sum")
    env = dict(ms.GOENV, VERIF_HARNESS_DIR=harness, VERIF_REPO=repo, VERIF_NO_EVIDENCE="1")
    recs = {}
    for f in sorted(glob.glob(os.path.join(ss.D, "lane*.jsonl"))) + sorted(glob.glob(os.path.join(ss.D, "recheck*.jsonl"))):
        for l in open(f):
            r = json.loads(l); recs[(r["file"], r["line"], r["new"])] = r
    todo = [r for r in recs.values() if r["status"] in ("survived", "timeout") and ss.classify(r)[0] == "OPEN"]
    print(len(todo), "open survivors")
    with open(os.path.join(ss.D, "recheck.jsonl"), "a") as log:
        for r in todo:
            path = os.path.join(repo, r["file"]); orig = open(path).read(); lines = orig.split("\n")
            cands = [i for i, l in enumerate(lines) if l.strip() == r["old"]]
            if not cands:
                continue
            i = min(cands, key=lambda i: abs(i - (r["line"] - 1)))
            pat, rep = ms.OPS[r["op"]]
            code = lines[i]
            col = min(r["col"], len(code))
            new = code[:col] + re.sub(pat, rep, code[col:], count=1)
            if new == code:
                new = re.sub(pat, rep, code, count=1)
            lines[i] = new
            open(path, "w").write("\n".join(lines))
            rec = dict(r); rec["rechecked"] = True
            try:
                rc, out = ms.sh(["go", "build", "./..."], cwd=repo, env=ms.GOENV, timeout=300)
                if rc != 0:
                    rec["status"] = "does-not-compile"
                else:
                    props = sorted(set((ms.FUNC_PROPS.get(r["func"]) or ms.FILE_DEFAULT[r["file"]]) + EXTRA.get(r["func"], [])))
                    rec["props"] = props; rec["status"] = "survived"
                    for p in props:
                        rc, out = ms.sh([ROOT + "/bin/check", p], cwd=ROOT, env=env, timeout=1500)
                        if rc != 0 and "VIOLATION" in out:
                            rec["status"] = "caught"; rec["caught_by"] = p; rec["nofailing"] = "no-failing-input-found" in out
                            break
            except Exception as e:
                rec["status"] = "timeout"
            finally:
                open(path, "w").write(orig)
            print(rec["status"], rec.get("caught_by"), r["file"], r["line"], r["new"][:60], flush=True)
            log.write(json.dumps(rec) + "\n"); log.flush()
    ms.sh(["git", "-C", "/repo", "worktree", "remove", "--force", repo]); shutil.rmtree(work, ignore_errors=True)

if __name__ == "__main__":
    main()
