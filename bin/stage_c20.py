"""C20 observations outside the variable model (harness/c20extra.go): evaluation order across UNION operands when the
right operand's FROM already stores (derived table, parenthesised union), and numeric keys that differ only beyond
15 significant digits."""
import json, os


def extra(ctx):
    res = {"name": "union-operand-order+long-numeric-keys", "ok": False, "violations": [], "coverage": {}}
    d = os.path.join(ctx["rundir"], "c20extra")
    rc, out = ctx["run"]([ctx["exe"], "aux", "c20extra", "-out", d], cwd=ctx["rundir"], env=ctx["goenv"], timeout=300)
    p = os.path.join(d, "c20extra.json")
    if rc != 0 or not os.path.exists(p):
        res["detail"] = "driver failed: " + out[-300:]
        res["broken"] = "stage:union-operand-order+long-numeric-keys did not complete: " + out[-200:].replace("\n", " ")
        return res
    m = json.load(open(p))
    fails = m.get("failures") or []
    res["coverage"] = {"cases": m.get("checks", 0), "rule": "4 UNION ALL shapes whose right operand stores while its FROM is built; 16-digit integer keys and 16-digit fractions as register names"}
    res["ok"] = not fails
    res["detail"] = "%d of %d observations fail" % (len(fails), m.get("checks", 0))
    for i, f in enumerate(fails[:3]):
        rp = os.path.join(ctx["root"], "replays", "C20-%s-%d-extra-%d.json" % (ctx["tier"], ctx["seed"], i))
        json.dump({"property": "C20", "failure": f, "replay": "vharness aux c20extra -out <dir>"}, open(rp, "w"), indent=1)
        res["violations"].append((rp, ""))
    return res


def install(CONFIG, EXTRA_TB, ASSUME):
    CONFIG.setdefault("C20", {}).setdefault("stages", []).append(extra)
