"""C04 stress stage: PARALLEL join drivers vs. the sequential drivers on large key sets (real code),
justified by C04_parallel_schedules; under the race detector in the thorough tier.
Second stage (C04 only), `vharness aux c04nested`: the PARALLEL nested loop (non-equi ON, PARALLEL STRAIGHT_JOIN) with
large batches per left key, each query repeated by concurrent callers with GOMAXPROCS above the core count, so that a
hand-over of a batch that is only correct under a lucky schedule shows as lost / extra rows within the time budget."""
import json, os


def stress(ctx):
    res = {"name": "parallel-join-stress", "ok": False, "violations": [], "coverage": {}}
    exe = ctx["exe"]
    env = dict(ctx["goenv"])
    if ctx["tier"] == "thorough":
        rexe, out = ctx["build_harness"](race=True)
        if rexe:
            exe = rexe
            env["GORACE"] = "halt_on_error=1"
    d = os.path.join(ctx["rundir"], "c04stress")
    rc, out = ctx["run"]([exe, "aux", "c04stress", "-tier", ctx["tier"], "-seed", str(ctx["seed"]), "-out", d],
                         cwd=ctx["rundir"], env=env, timeout=3000)
    path = os.path.join(d, "c04stress.json")
    race = "WARNING: DATA RACE" in out or "fatal error" in out
    if (rc != 0 or not os.path.exists(path)) and not race:
        res["detail"] = "stress driver failed: " + out[-300:]
        res["broken"] = "stage:parallel-join-stress did not complete: " + out[-200:].replace("\n", " ")
        return res
    m = json.load(open(path)) if os.path.exists(path) else {"runs": 0, "failures": [], "samples": []}
    res["coverage"] = {"cases": m.get("runs", 0), "rounds": m.get("rounds"), "samples": m.get("samples"),
                       "rule": "PARALLEL [LEFT|RIGHT] [HASH_]JOIN over 300-2000 distinct keys, multiset compared with the sequential join of the same tables on the real code"}
    fails = m.get("failures") or []
    if race:
        fails = fails + [{"sql": "(race detector report)", "detail": out[-1500:]}]
    res["ok"] = not fails
    res["detail"] = "%d of %d parallel joins differ from the sequential result" % (len(fails), m.get("runs", 0))
    for i, f in enumerate(fails[:3]):
        p = os.path.join(ctx["root"], "replays", "%s-%s-%d-stress-%d.json" % (ctx["pid"], ctx["tier"], ctx["seed"], i))
        json.dump({"property": ctx["pid"], "kind": "parallel join differs from sequential join", "failure": f,
                   "replay": "vharness aux c04stress -tier %s -seed %d -out <dir>" % (ctx["tier"], ctx["seed"])}, open(p, "w"), indent=1)
        res["violations"].append((p, ""))
    return res


def nested(ctx):
    """second driver: the PARALLEL nested loop (non-equi ON / PARALLEL STRAIGHT_JOIN) with large batches per left key,
    many duplicates per key, the same query repeated by several callers at once with GOMAXPROCS above the core count"""
    res = {"name": "parallel-nested-loop-stress", "ok": False, "violations": [], "coverage": {}}
    exe = ctx["exe"]
    env = dict(ctx["goenv"])
    if ctx["tier"] == "thorough":
        rexe, out = ctx["build_harness"](race=True)
        if rexe:
            exe = rexe
            env["GORACE"] = "halt_on_error=1"
    d = os.path.join(ctx["rundir"], "c04nested")
    rc, out = ctx["run"]([exe, "aux", "c04nested", "-tier", ctx["tier"], "-seed", str(ctx["seed"]), "-out", d],
                         cwd=ctx["rundir"], env=env, timeout=3000)
    path = os.path.join(d, "c04nested.json")
    race = "WARNING: DATA RACE" in out or "fatal error" in out
    if (rc != 0 or not os.path.exists(path)) and not race:
        res["detail"] = "stress driver failed: " + out[-300:]
        res["broken"] = "stage:parallel-nested-loop-stress did not complete: " + out[-200:].replace("\n", " ")
        return res
    m = json.load(open(path)) if os.path.exists(path) else {"runs": 0, "failures": [], "samples": []}
    res["coverage"] = {"cases": m.get("runs", 0), "rounds": m.get("rounds"), "samples": m.get("samples"), "gomaxprocs": m.get("gomaxprocs"),
                       "rule": "PARALLEL [LEFT|RIGHT] JOIN with a non-equi ON and PARALLEL STRAIGHT_JOIN (nested loop: one goroutine and one batch of hundreds to thousands of rows per left key; 20-350 left keys, 1-6 duplicates per key on either side), each query repeated by 4 concurrent callers on private copies of the document with GOMAXPROCS = 4 x cores; every result compared as a multiset with the sequential join of the same tables on the real code"}
    fails = m.get("failures") or []
    if race:
        fails = fails + [{"sql": "(race detector report)", "detail": out[-1500:]}]
    res["ok"] = not fails
    res["detail"] = "%d of %d parallel nested-loop joins differ from the sequential result" % (len(fails), m.get("runs", 0))
    for i, f in enumerate(fails[:3]):
        p = os.path.join(ctx["root"], "replays", "%s-%s-%d-nested-%d.json" % (ctx["pid"], ctx["tier"], ctx["seed"], i))
        json.dump({"property": ctx["pid"], "kind": "parallel nested-loop join differs from sequential join (schedule-dependent: rerun the driver)", "failure": f,
                   "replay": "vharness aux c04nested -tier %s -seed %d -out <dir>" % (ctx["tier"], ctx["seed"])}, open(p, "w"), indent=1)
        res["violations"].append((p, ""))
    return res


def install(CONFIG, EXTRA_TB, ASSUME):
    CONFIG.setdefault("C04", {}).setdefault("stages", []).append(stress)
    CONFIG.setdefault("C04", {}).setdefault("stages", []).append(nested)
    # C13 (no cross-talk between the goroutines of one query): the same stress, keys handed to worker goroutines in batches
    CONFIG.setdefault("C13", {}).setdefault("stages", []).append(stress)
