"""C04 stress stage: PARALLEL join drivers vs. the sequential drivers on large key sets (real code),
justified by C04_parallel_schedules; under the race detector in the thorough tier."""
import json, os


def stress(ctx):
    res = {"name": "parallel-join-stress", "ok": False, "violations": [], "coverage": {}}
    exe = ctx["exe"]
    env = dict(ctx["goenv"])
    if ctx["tier"] == "thorough":
        rexe, out = ctx["build_harness"](race=True)
        if rexe:
            exe = rexe
            env["GORACE"] = "halt_on_error=1"
    d = os.path.join(ctx["rundir"], "c04stress")
    rc, out = ctx["run"]([exe, "aux", "c04stress", "-tier", ctx["tier"], "-seed", str(ctx["seed"]), "-out", d],
                         cwd=ctx["rundir"], env=env, timeout=3000)
    path = os.path.join(d, "c04stress.json")
    race = "WARNING: DATA RACE" in out or "fatal error" in out
    if (rc != 0 or not os.path.exists(path)) and not race:
        res["detail"] = "stress driver failed: " + out[-300:]
        res["broken"] = "stage:parallel-join-stress did not complete: " + out[-200:].replace("\n", " ")
        return res
    m = json.load(open(path)) if os.path.exists(path) else {"runs": 0, "failures": [], "samples": []}
    res["coverage"] = {"cases": m.get("runs", 0), "rounds": m.get("rounds"), "samples": m.get("samples"),
                       "rule": "PARALLEL [LEFT|RIGHT] [HASH_]JOIN over 300-2000 distinct keys, multiset compared with the sequential join of the same tables on the real code"}
    fails = m.get("failures") or []
    if race:
        fails = fails + [{"sql": "(race detector report)", "detail": out[-1500:]}]
    res["ok"] = not fails
    res["detail"] = "%d of %d parallel joins differ from the sequential result" % (len(fails), m.get("runs", 0))
    for i, f in enumerate(fails[:3]):
        p = os.path.join(ctx["root"], "replays", "%s-%s-%d-stress-%d.json" % (ctx["pid"], ctx["tier"], ctx["seed"], i))
        json.dump({"property": ctx["pid"], "kind": "parallel join differs from sequential join", "failure": f,
                   "replay": "vharness aux c04stress -tier %s -seed %d -out <dir>" % (ctx["tier"], ctx["seed"])}, open(p, "w"), indent=1)
        res["violations"].append((p, ""))
    return res


def install(CONFIG, EXTRA_TB, ASSUME):
    CONFIG.setdefault("C04", {}).setdefault("stages", []).append(stress)
    # C13 (no cross-talk between the goroutines of one query): the same stress, keys handed to worker goroutines in batches
    CONFIG.setdefault("C13", {}).setdefault("stages", []).append(stress)
