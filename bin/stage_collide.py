"""Digest-collision search (C04, C06, C09), run on every check: the models decide identity of join keys, DISTINCT rows
and distinct=> elements on the text itself, the code goes through a digest. `vharness aux collide-<id>` feeds 260 000
pairwise distinct pseudo-random values (numbers, then strings) to the REAL code and looks for two values it confuses
(an equi-join row pairing different keys; a distinct value dropped as a duplicate). With SHA-256 nothing can be found;
with a 32-bit or truncated digest the birthday bound makes a hit near certain. A hit is reported with the minimal
two-value case as the replay (corpus format: `./bin/check <id> --replay <file>` runs it against the model)."""
import glob, json, os, shutil


def make(pid):
    def stage(ctx):
        res = {"name": "digest-collision-search", "ok": False, "violations": [], "coverage": {}}
        d = os.path.join(ctx["rundir"], "collide-stage")
        rc, out = ctx["run"]([ctx["exe"], "aux", "collide-" + pid, "-out", d], cwd=ctx["rundir"], env=ctx["goenv"], timeout=1200)
        rp = os.path.join(d, "collide.json")
        if rc != 0 or not os.path.exists(rp):
            res["detail"] = "collision search failed: " + out[-300:]
            res["broken"] = "stage:digest-collision-search did not complete: " + out[-200:].replace("\n", " ")
            return res
        rep = json.load(open(rp))
        res["coverage"] = {"cases": rep.get("values_tried", 0), "rule": "pairwise distinct pseudo-random numbers, then strings, through the real join / DISTINCT / distinct=>"}
        files = sorted(glob.glob(os.path.join(d, "collision-*.json")))
        res["ok"] = not files
        res["detail"] = "%d values, %d confused pairs%s" % (rep.get("values_tried", 0), rep.get("found", 0), (": %s" % rep.get("pair")) if files else "")
        for i, f in enumerate(files[:3]):
            p = os.path.join(ctx["root"], "replays", "%s-%s-%d-collision-%d.json" % (pid, ctx["tier"], ctx["seed"], i))
            rec = json.load(open(f))
            rec.update({"property": pid, "verdict": "the real code treats two different values as the same (digest collision): " + json.dumps(rep.get("pair")),
                        "replay": "./bin/check %s --replay %s" % (pid, os.path.relpath(p, ctx["root"]))})
            json.dump(rec, open(p, "w"), indent=1)
            res["violations"].append((p, ""))
        return res
    return stage


def install(CONFIG, EXTRA_TB, ASSUME):
    for pid in ("C04", "C06", "C09"):
        CONFIG.setdefault(pid, {}).setdefault("stages", []).append(make(pid))
        ASSUME.setdefault(pid, []).append("SHA-256 is treated as injective on the inputs met (the models compare the digested text itself); a collision search over 260 000 values runs on every check and can only refute this for weak digests")
