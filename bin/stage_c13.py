"""C13 — concurrent queries: regenerated lock/access-event obligation and the -race stress stage.

structural(ctx): `vharness aux c13sites` re-derives from /repo's current source, for every function
  touching cache / functions / immediateFunctions / topLevelFunctions / Options.vars (and the mutexes
  mut / varsMut), the Lock/Unlock/RLock/RUnlock/Read/Write/Call/Return event sequence of every
  control-flow path; a generated Obl_C13.v proves by vm_compute the boolean criterion that
  C13_sites_sound / C13_lockset_race_free take as premise, and that ExecReader has exactly the
  event paths of the model (Model/ConcCache.v).
stage_race(ctx): a -race build of the harness runs the multi-goroutine driver (aux c13stress) as a
  child process with a timeout; any race report, fatal error, crash, hang, cross-talk or change of the
  shared document is a failing schedule whose log is the replay. Separate documents differ in the length of
  the arrays that open-ended ranges `(k:end)` are taken of (run alone = the closed spelling `(k:len)`), and
  SPINASYNC calls over flat / 2- / 3-dimensional tables are tallied: a call still running when Exec returns
  (C13-UNFINISHED) is the library's own parallelism racing with the caller."""
import json, os, re, subprocess, time


def _repo_env(ctx):
    return dict(ctx["goenv"])


def structural(ctx):
    d = os.path.join(ctx["rundir"], "c13sites")
    rc, out = ctx["run"]([ctx["exe"], "aux", "c13sites", "-out", d], cwd=ctx["rundir"], env=_repo_env(ctx), timeout=300)
    if rc != 0:
        return [("lock-events", False, "translator failed: " + out[-400:])]
    rc, out = ctx["run"](["coqc", "-Q", ctx["coq"], "GenqlV", "-Q", ".", "", "Sites13.v"], cwd=d, timeout=600)
    if rc != 0:
        return [("lock-events", False, "Sites13.v does not compile: " + out[-400:])]
    info = json.load(open(os.path.join(d, "sites13.json")))
    head = ("From Coq Require Import List String Bool.\n"
            "From GenqlV Require Import Base.Prelude Model.ConcEvents Model.ConcCache.\nRequire Import Sites13.\n")
    res = []
    for name, stmt, what in [
        ("discipline", "table_ok c13_sites",
         "every path of the %d functions (%d paths) touching cache/vars/registries: cache only between Lock and Unlock of mut, "
         "vars only under varsMut (writes: Lock, reads: RLock or Lock), every path releases what it locked, no call into "
         "lock-taking code while holding, registries written only from init/Register*/Import, nothing opaque"
         % (info["functions"], info["paths"])),
        ("exec-reader-shape", "exec_reader_shape c13_sites",
         "selector.go ExecReader has exactly the event paths of Model/ConcCache.v (hit / miss / parse error)"),
    ]:
        v = os.path.join(d, "Obl_C13_%s.v" % name.replace("-", "_"))
        open(v, "w").write(head + "Theorem obl : %s = true.\nProof. vm_compute. reflexivity. Qed.\n" % stmt)
        rc, out = ctx["run"](["coqc", "-Q", ctx["coq"], "GenqlV", "-Q", ".", "", os.path.basename(v)], cwd=d, timeout=600)
        detail = ""
        if rc != 0:
            w = os.path.join(d, "Off_%s.v" % name.replace("-", "_"))
            q = "c13_offenders c13_sites" if name == "discipline" else "lookup_row \"ExecReader\" c13_sites"
            open(w, "w").write(head + "Eval vm_compute in (%s).\n" % q)
            rc2, out2 = ctx["run"](["coqc", "-Q", ctx["coq"], "GenqlV", "-Q", ".", "", os.path.basename(w)], cwd=d, timeout=600)
            txt = " ".join(out2.split()).replace("%string", "")
            detail = ("offending (function, path): " if name == "discipline" else "paths found: ") + txt[:900]
        res.append(("lock-events/%s: %s" % (name, what), rc == 0, detail))
    return res


RACE_PAT = re.compile(r"WARNING: DATA RACE")


def _first_report(log):
    """The first race report / fatal error / marker of the log, for the replay file."""
    for pat in (r"==================\nWARNING: DATA RACE.*?==================", r"fatal error:.*?\n\n.*?\n\n",
                r"panic:.*?\n\n.*?\n\n", r"C13-[A-Z-]+:.*"):
        m = re.search(pat, log, re.S)
        if m:
            return m.group(0)[:6000]
    return log[-3000:]


def _race_sites(log):
    """Distinct (access, access) pairs of the race reports: innermost genql frame of each side."""
    sites = {}
    for b in log.split("=================="):
        if "DATA RACE" not in b:
            continue
        key = []
        for kind, frames in re.findall(r"((?:Previous )?(?:[Ww]rite|[Rr]ead)) at .*?\n((?:  .*\n      .*\n)+)", b):
            fr = re.findall(r"  (\S+)\(\)\n      (\S+):(\d+)", frames)
            g = [f for f in fr if "genql" in f[0]] or fr
            if g:
                key.append("%s %s (%s:%s)" % (kind.lower(), g[0][0].split("/")[-1], os.path.basename(g[0][1]), g[0][2]))
        k = " <-> ".join(key)
        sites[k] = sites.get(k, 0) + 1
    return [{"race": k, "reports": v} for k, v in sorted(sites.items())][:20]


def stage_race(ctx):
    name = "race-stress"
    tier, seed = ctx["tier"], ctx["seed"]
    exe, blog = ctx["build_harness"](race=True)
    if exe is None:
        return {"name": name, "ok": False, "detail": "-race build failed: " + blog[-300:], "coverage": {},
                "violations": [], "broken": "stage:race-stress -race build of the harness failed: " + blog[-300:].replace("\n", " ")}
    if tier == "thorough":
        plan = [(1, 25), (2, 25), (4, 30), (8, 30), (16, 30), (0, 30)]
    else:
        plan = [(0, 16)]
    cov = {"runs": [], "rounds": 0, "jobs": 0, "fresh_selector_texts": 0, "rounds_by_goroutines": {}, "jobs_by_kind": {}, "outcomes": {}}
    violations, details = [], []
    for k, (procs, secs) in enumerate(plan):
        d = os.path.join(ctx["rundir"], "stress%d" % k)
        os.makedirs(d, exist_ok=True)
        env = dict(ctx["goenv"], C13_SECONDS=str(secs), GORACE="halt_on_error=0 exitcode=66")
        if procs:
            env["GOMAXPROCS"] = str(procs)
        cmd = [exe, "aux", "c13stress", "-tier", tier, "-seed", str(seed + k), "-out", d]
        t0 = time.time()
        try:
            rc, out = ctx["run"](cmd, cwd=ctx["rundir"], env=env, timeout=secs + 150)
        except subprocess.TimeoutExpired as e:
            rc, out = -9, "C13-TIMEOUT: the stress driver did not finish within %d s\n%s" % (secs + 150, (e.output or "")[-4000:] if isinstance(e.output, str) else "")
        summ = {}
        try:
            summ = json.load(open(os.path.join(d, "summary.json")))
        except Exception:
            pass
        for key in ("rounds", "jobs", "fresh_selector_texts"):
            cov[key] += summ.get(key, 0)
        for key in ("rounds_by_goroutines", "jobs_by_kind", "outcomes"):
            for a, b in (summ.get(key) or {}).items():
                cov[key][a] = cov[key].get(a, 0) + b
        cov["runs"].append({"gomaxprocs": procs or "default", "seconds": round(time.time() - t0, 1), "exit": rc, "seed": seed + k})
        kinds = []
        if RACE_PAT.search(out):
            kinds.append("data race reported by the race detector (%d reports)" % len(RACE_PAT.findall(out)))
        if "fatal error:" in out:
            kinds.append("fatal error: " + (re.search(r"fatal error: (.*)", out).group(1))[:80])
        if "C13-TIMEOUT" in out:
            kinds.append("timeout / deadlock")
        if "C13-CROSSTALK" in out:
            kinds.append("cross-talk: a query returned something else than when run alone")
        if "C13-UNFINISHED" in out:
            kinds.append("library goroutines outlive Exec: SPINASYNC calls still running when Exec returned")
        if "C13-SHARED-MODIFIED" in out:
            kinds.append("the shared document was modified")
        if re.search(r"^panic: ", out, re.M) or "[recovered]" in out:
            kinds.append("crash (panic)")
        if rc != 0 and not kinds:
            kinds.append("stress driver exit status %s" % rc)
        if summ.get("recovered_panics"):
            kinds.append("%d queries panicked" % summ["recovered_panics"])
        if kinds:
            path = os.path.join(ctx["root"], "replays", "C13-%s-%d-stress%d.json" % (tier, seed, k))
            json.dump({"property": "C13",
                       "input": {"stress": {"seed": seed + k, "tier": tier, "seconds": secs, "gomaxprocs": procs}},
                       "verdict": "; ".join(kinds),
                       "mismatches": summ.get("mismatches"),
                       "race_sites": _race_sites(out),
                       "log": _first_report(out),
                       "replay": "./bin/check C13 --replay %s   (rebuilds the harness with -race and re-runs this stress configuration as a child process)"
                                 % os.path.relpath(path, ctx["root"])},
                      open(path, "w"), indent=1)
            violations.append((path, ""))
            details.append("GOMAXPROCS=%s: %s" % (procs or "default", "; ".join(kinds)))
    ok = not violations
    detail = ("%d rounds, %d jobs (%d fresh selector texts), 2-32 goroutines, no race report / crash / hang / cross-talk"
              % (cov["rounds"], cov["jobs"], cov["fresh_selector_texts"])) if ok else " | ".join(details)[:900]
    return {"name": name, "ok": ok, "detail": detail, "coverage": cov, "violations": violations[:3]}


def install(CONFIG, EXTRA_TB, ASSUME):
    cfg = CONFIG.setdefault("C13", {})
    cfg.update({"shard": 200, "structural": structural, "level": "proof"})
    cfg.setdefault("stages", []).insert(0, stage_race)   # other plug-ins (loaded earlier or later) add their stages too
    EXTRA_TB.setdefault("C13", []).extend([
        "interleaving semantics: one event per step, sync.Mutex / sync.RWMutex as in Model/ConcEvents.v (Lock waits for no writer and no reader, RLock for no writer, Unlock releases whoever holds); that a data-race-free Go program behaves as some interleaving (Go memory model, DRF-SC) and everything below the events (map implementation, allocator, scheduler) is NOT proved: it is observed by the -race stress stage (2-32 goroutines, GOMAXPROCS swept in the thorough tier) — this is why the claim is partial",
        "translator harness/prop_c13.go c13sites (go/ast + parser identifier resolution, no type checker): linearises structured control flow per function (loops zero or one iteration with loop-invariant lock state, defers replayed at returns, function literals as separate rows, by-name call graph for Call events); tracked names: package vars cache, functions, immediateFunctions, topLevelFunctions, mut; fields vars, varsMut. It trusts that no other alias of these objects exists (taking their address or passing them to a call is reported as a write) and that no panic escapes between Lock and Unlock (hypothesis parse_nopanic of the cache theorems, discharged for the real parser by C09's parse_all_nopanic)",
        "init / Register* / Import (registry writers) and With* option closures (run inside New) are exempt from the discipline: package initialisation happens-before main, and the registration API is a start-up API",
        "selector parser and reader inside the cache model are the C09 model (parse_all, exec_all); the cache theorems hold for ANY pure parse/eval",
    ])
    ASSUME.setdefault("C13", []).extend([
        "a *Query is used by one goroutine (queries are constructed and executed concurrently, one per goroutine, as the property states); Register*/Import are not called while queries run",
        "C13_readonly_sharing's premise (the engine writes only to objects it allocated itself) is C11's regenerated mutation-site obligation; here it is additionally observed (shared document deep-compared after every round)",
        "ParseSelector does not panic (C09_never_panics): a panic between mut.Lock() and mut.Unlock() would leak the mutex (ExecReader has no defer)",
    ])
