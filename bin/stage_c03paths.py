"""C03, OBSERVATIONAL stage (harness/r4_c03paths.go): GROUP BY over grouping keys that are nested paths (`owner.team`, `o.p.q`)
or indexed selectors (`tags[0]`, `owner.tags[1]`). The engine model keeps grouping columns as flat names (Model/Ast.v s_group :
list string, read with a one-step path), so such keys cannot be evaluated by the model; the statement of C03 is checked on
the real code instead, against an independent reading of the key path written in Go: the rows that passed WHERE are
partitioned by the value of the key (NULL / missing steps read NULL), groups in order of first appearance, members in
source order, COUNT/SUM/MIN/MAX over exactly the members, identically on three runs — and a row for which a key has no value
at all (a key step through a scalar, an index step on a non-array or beyond the end of the array) is never placed into a
group: the engine refuses such a query. Not a model comparison: the oracle is the few lines of readPath/expect in that file."""
import json, os


def paths(ctx):
    name = "group-by-path-keys"
    res = {"name": name, "ok": False, "violations": [], "coverage": {}}
    d = os.path.join(ctx["rundir"], "c03paths")
    rc, out = ctx["run"]([ctx["exe"], "aux", "c03paths", "-tier", ctx["tier"], "-seed", str(ctx["seed"]), "-out", d],
                         cwd=ctx["rundir"], env=ctx["goenv"], timeout=600)
    p = os.path.join(d, "c03paths.json")
    if rc != 0 or not os.path.exists(p):
        res["detail"] = "driver failed: " + out[-300:]
        res["broken"] = "stage:%s did not complete: %s" % (name, out[-200:].replace("\n", " "))
        return res
    m = json.load(open(p))
    fails = m.get("failures") or []
    res["coverage"] = {"cases": m.get("checks", 0), "distribution": m.get("distribution"),
                       "rule": "tables of 1-7 rows whose owner / tags / o columns are objects, arrays, NULL, missing or (in some tables) scalars and "
                               "too-short arrays x GROUP BY over 1-2 keys drawn from owner.team, o.p.q, tags[0], tags[1], owner.tags[0], owner.tags[1] "
                               "(optionally beside the flat column g) x optional WHERE on id; two query shapes each (SELECT *, four aggregates), three runs each; "
                               "compared with a Go reading of the path, not with the Coq model"}
    res["ok"] = not fails
    res["detail"] = "%d of %d generated tables/queries disagree with the independent reading of the grouping path" % (len(fails), m.get("checks", 0))
    for i, f in enumerate(fails[:3]):
        rp = os.path.join(ctx["root"], "replays", "C03-%s-%d-paths-%d.json" % (ctx["tier"], ctx["seed"], i))
        json.dump({"property": "C03", "kind": "GROUP BY over a path / indexed key: observed result against the independent reading (observational stage, no model)",
                   "failure": f, "replay": "vharness aux c03paths -in %s -out <dir>   (then read <dir>/c03paths.json)" % os.path.relpath(rp, ctx["root"])},
                  open(rp, "w"), indent=1)
        res["violations"].append((rp, ""))
    return res


def install(CONFIG, EXTRA_TB, ASSUME):
    CONFIG.setdefault("C03", {}).setdefault("stages", []).append(paths)
    ASSUME.setdefault("C03", []).append(
        "grouping keys that are nested paths or indexed selectors are checked a second time, without the model, by the observational "
        "stage group-by-path-keys: real code against a Go reading of the path (harness/r4_c03paths.go), key values scalar or NULL "
        "(since round 5 the model has these keys too: stream group-by-path-keys of harness/r5_c03.go)")
