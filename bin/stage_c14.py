"""C14 plug-in for bin/check: obligations regenerated from /repo's source and the -race stage.

structural:registry   `vharness aux C14registry` walks the init() functions of package genql with
                      go/ast and prints every Register[Immediate]Function("name", ...) call as a Coq
                      list; a generated file proves `gen_registry = Strategies.registry` by
                      vm_compute, so the table C14_immediate_rejects quantifies over is the one the
                      source registers today.
structural:immediate-guards   the same walker checks that FunExpr binds
                      `isimmediate := IsImmediateFunction(name)` and that each of the cases "async",
                      "spin", "spinasync" starts with `if isimmediate { return nil, <error> }`.
stage:nested-completion   OBSERVATIONAL, harness/c14nest.go: ASYNC / SPINASYNC calls made by a query nested as join
                      operand, derived table, CTE, UNION side, row-scoped subquery or inner dimension (two levels)
                      have all been invoked and have completed when Exec returns, exactly once per row.
stage:race            (thorough tier) the C14 driver from a `go build -race` harness: every data
                      race report is a failing schedule, its log is the replay.
"""
import glob
import json
import os


def structural(ctx):
    out = os.path.join(ctx["rundir"], "c14aux")
    os.makedirs(out, exist_ok=True)
    rc, txt = ctx["run"]([ctx["exe"], "aux", "C14registry", "-out", out], cwd=ctx["rundir"], env=ctx["goenv"], timeout=300)
    if rc != 0 or not os.path.exists(os.path.join(out, "C14Registry.v")):
        d = "translator failed: " + txt[-300:].replace("\n", " ")
        return [("registry", False, d), ("immediate-guards", False, d)]
    rc, txt = ctx["run"](["coqc", "-Q", ctx["coq"], "GenqlV", "C14Registry.v"], cwd=out, timeout=600)
    info = json.load(open(os.path.join(out, "c14_registry.json")))
    reg = info.get("registry") or []
    res = []
    if rc == 0:
        res.append(("registry", True, "%d functions, %d immediate; equals Model.Strategies.registry" %
                    (len(reg), sum(1 for e in reg if e.get("immediate")))))
    else:
        res.append(("registry", False,
                    "functions registered by init() differ from Model/Strategies.v registry: " +
                    ", ".join("%s%s" % (e["name"], "!" if e.get("immediate") else "") for e in reg)[:600]))
    guards = info.get("guards") or {}
    missing = sorted(k for k in ("async", "spin", "spinasync") if not guards.get(k))
    detail = info.get("detail") or ""
    if missing or detail:
        res.append(("immediate-guards", False,
                    "FunExpr no longer rejects immediate functions first in case(s): %s %s" % (", ".join(missing), detail)))
    else:
        res.append(("immediate-guards", True, "async, spin, spinasync start with `if isimmediate { return nil, err }`"))
    return res


def race_stage(ctx):
    name = "race"
    if ctx["tier"] != "thorough" and not os.environ.get("C14_RACE"):
        return {"name": name, "ok": True, "detail": "thorough tier only", "coverage": {"skipped": True}}
    exe, log = ctx["build_harness"](race=True)
    if exe is None:
        return {"name": name, "ok": False, "detail": "race build failed: " + log[-300:], "coverage": {},
                "broken": "stage:race build failed"}
    out = os.path.join(ctx["rundir"], "c14race")
    os.makedirs(out, exist_ok=True)
    logbase = os.path.join(out, "racelog")
    env = dict(ctx["goenv"], GORACE="log_path=%s halt_on_error=0" % logbase)
    seeds = [ctx["seed"], ctx["seed"] + 1] if ctx["tier"] == "thorough" else [ctx["seed"]]
    cases = 0
    fail = ""
    for sd in seeds:
        gdir = os.path.join(out, "gen%d" % sd)
        rc, txt = ctx["run"]([exe, "gen", "C14", "-tier", "quick", "-seed", str(sd), "-out", gdir,
                              "-corpus", os.path.join(ctx["root"], "corpus", "C14"), "-shard", "100000"],
                             cwd=ctx["rundir"], env=env, timeout=3000)
        try:
            cases += json.load(open(os.path.join(gdir, "meta.json"))).get("evaluations", 0)
        except Exception:
            pass
        if rc not in (0, 66) and not fail:
            fail = "race driver exited with %d: %s" % (rc, txt[-300:].replace("\n", " "))
    reports = []
    for f in sorted(glob.glob(logbase + "*")):
        txt = open(f, errors="replace").read()
        if "DATA RACE" in txt:
            reports.append(txt)
    violations = []
    if reports:
        path = os.path.join(ctx["root"], "replays", "C14-%s-%d-race.log" % (ctx["tier"], ctx["seed"]))
        with open(path, "w") as fh:
            fh.write("# data race(s) reported by `go build -race` vharness gen C14 (seeds %s); rerun: C14_RACE=1 ./bin/check C14\n" % seeds)
            fh.write("\n\n".join(reports[:5]))
        violations.append((path, " data-race"))
    r = {"name": name, "ok": not reports and not fail,
         "detail": ("%d race report(s)" % len(reports)) if reports else (fail or "no race in %d cases" % cases),
         "coverage": {"cases_under_race_detector": cases, "race_reports": len(reports)},
         "violations": violations}
    if fail and not reports:
        r["broken"] = "stage:race " + fail
    return r


def extra_stage(ctx):
    """ONCE among the arguments of a qualified call; immediate functions registered after the first query."""
    res = {"name": "once-in-arguments+late-immediate", "ok": False, "violations": [], "coverage": {}}
    d = os.path.join(ctx["rundir"], "c14extra")
    rc, out = ctx["run"]([ctx["exe"], "aux", "c14extra", "-seed", str(ctx["seed"]), "-out", d], cwd=ctx["rundir"], env=ctx["goenv"], timeout=300)
    p = os.path.join(d, "c14extra.json")
    if rc != 0 or not os.path.exists(p):
        res["detail"] = "driver failed: " + out[-300:]
        res["broken"] = "stage:once-in-arguments+late-immediate did not complete: " + out[-200:].replace("\n", " ")
        return res
    m = json.load(open(p))
    fails = m.get("failures") or []
    res["coverage"] = {"cases": m.get("checks", 0), "rule": "ONCE.f among the arguments of ASYNC / SPINASYNC / SCOPED / plain calls over 5 rows (one invocation, one value); 4 immediate functions registered after queries ran x 5 qualifier spellings (all rejected, never invoked)"}
    res["ok"] = not fails
    res["detail"] = "%d of %d observations fail" % (len(fails), m.get("checks", 0))
    for i, f in enumerate(fails[:3]):
        rp = os.path.join(ctx["root"], "replays", "C14-%s-%d-extra-%d.json" % (ctx["tier"], ctx["seed"], i))
        json.dump({"property": "C14", "failure": f, "replay": "vharness aux c14extra -seed %d -out <dir>" % ctx["seed"]}, open(rp, "w"), indent=1)
        res["violations"].append((rp, ""))
    return res


def nest_stage(ctx):
    """OBSERVATIONAL (no Coq model behind it): completion of ASYNC / SPINASYNC calls before Exec returns, wherever the
    query making the calls is nested (harness/c14nest.go): select list x nesting x nesting x latency, each cell run with
    and without the qualifiers."""
    name = "nested-completion (observational)"
    res = {"name": name, "ok": False, "violations": [], "coverage": {}}
    d = os.path.join(ctx["rundir"], "c14nest")
    rc, out = ctx["run"]([ctx["exe"], "aux", "c14nest", "-tier", ctx["tier"], "-seed", str(ctx["seed"]), "-out", d],
                         cwd=ctx["rundir"], env=ctx["goenv"], timeout=900)
    p = os.path.join(d, "c14nest.json")
    if rc != 0 or not os.path.exists(p):
        res["detail"] = "driver failed: " + out[-300:]
        res["broken"] = "stage:nested-completion did not complete: " + out[-200:].replace("\n", " ")
        return res
    m = json.load(open(p))
    fails = m.get("failures") or []
    res["coverage"] = {"cases": m.get("checks", 0), "compared": m.get("compared", 0), "calls": m.get("calls", 0),
                       "by_position": m.get("by_position"), "by_list": m.get("by_list"),
                       "rule": "8 select lists (SPINASYNC alone / next to a column / twice / next to ONCE, a plain call, ASYNC; ASYNC alone) x 9 positions (top, derived * / re-projected, CTE, UNION side, left / right / both join operands with 6 join spellings, row-scoped subquery; 2- and 3-dimensional sources) x one more level (derived, CTE, join operand, UNION side) x latency 0 / 0.2 / 2 ms; observed on the real code only: at the instant Exec returns started == completed, nothing starts afterwards, and the number of invocations equals that of the statement with the qualifiers removed"}
    # a matrix in which (almost) nothing is comparable checks nothing
    thin = m.get("compared", 0) * 10 < m.get("checks", 0) * 9
    res["ok"] = not fails and not thin
    res["detail"] = "%d of %d nested statements leave a qualified call unfinished, start one late or change the number of invocations (%d comparable)" % (
        len(fails), m.get("checks", 0), m.get("compared", 0))
    if thin and not fails:
        res["broken"] = "stage:nested-completion: only %d of %d statements are accepted with the calls unqualified" % (m.get("compared", 0), m.get("checks", 0))
    for i, f in enumerate(fails[:3]):
        rp = os.path.join(ctx["root"], "replays", "C14-%s-%d-nest-%d.json" % (ctx["tier"], ctx["seed"], i))
        json.dump({"property": "C14", "failure": f, "replay": "vharness aux c14nest -tier %s -seed %d -out <dir>" % (ctx["tier"], ctx["seed"])}, open(rp, "w"), indent=1)
        res["violations"].append((rp, ""))
    return res


def install(CONFIG, EXTRA_TB, ASSUME):
    CONFIG["C14"] = {"shard": 120, "structural": structural, "stages": [race_stage, extra_stage, nest_stage], "harness": True}
    EXTRA_TB["C14"] = [
        "Model/Strategies.v: the goroutine that calls Exec is modelled as a deterministic list of atomic actions (synchronous call, go+wg.Add, forwarder) computed by `compile` from FunExpr/SelectExpr/exec; this rests on main reading nothing a worker writes before wg.Wait(), which the -race stage of this check watches on the real code; Go's memory model (happens-before of wg.Done -> wg.Wait, go statement) is assumed, interleaving semantics = sequential consistency of the atomic steps",
        "user functions are a pure oracle name -> args -> (value | error | panic); `await`, GLOBAL and qualified calls nested inside other expressions are outside the model; sqlparser maps `ASYNC.F(x)` to FuncExpr{Qualifier, Name} (observed on every case)",
        "Spec/StrategiesSpec.v: the in-place meaning of a select list (call -> column, SPIN/SPINASYNC -> no column, ONCE -> memo keyed by function name), written from the property text",
        "nested positions beyond the model (join operands, CTEs, UNION sides, two levels of nesting) are OBSERVED, not modelled: stage nested-completion runs each generated statement with and without the qualifiers on the real code and compares invocation counts and completion at the instant Exec returns",
        "harness instrumentation: a hidden first argument routes each invocation to the recorder of its Exec; completion is recorded in a deferred block of the registered function; `at return` = snapshot taken in the statement after Exec() returns",
    ]
    ASSUME["C14"] = [
        "qualified calls appear directly as select-list items (of the query, of a derived table, of a select-list subquery, of a query over a two-dimensional table); DISTINCT / ORDER BY / WHERE over an ASYNC column read the slot before the wait and are outside the claim",
        "C14_async_transparent / C14_exactly_once: no ASYNC call of an immediate function (async_ok) — those are rejected, C14_immediate_rejects",
        "nothing is claimed about SPIN calls beyond `no column`: they may run after Exec has returned (each at most once in the model)",
        "ONCE is keyed by the function name within one query: a second ONCE call of the same function with other arguments sees the first value; a nested query has its own memo, the inner dimensions of a two-dimensional table share it",
    ]
