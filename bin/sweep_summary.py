#!/usr/bin/env python3
"""Summarises notes/mutation_sweep/lane*.jsonl (+ recheck*.jsonl written by later re-runs with the current harness)
into notes/mutation_sweep/SUMMARY.md. Survivors are classified by the rules below; anything unclassified is listed
as OPEN."""
import collections, glob, json, os, re
ROOT = os.path.dirname(os.path.dirname(os.path.abspath(__file__)))
D = os.path.join(ROOT, "notes", "mutation_sweep")

NOTES = {  # file:line -> (class, note) for survivors read by hand
    "join.go:84": ("caught-as-runaway", "every key is normalised to 0: the quick correspondence reports it; in the re-run the parallel-join stress stage then builds 2000 x 2000 cross products and exceeds the re-run's time limit"),
    "join.go:493": ("caught-as-runaway", "as above: the key columns are lost, the stress stage degenerates into cross products"),
    "join.go:576": ("caught-as-runaway", "as above"),
    "join.go:580": ("caught-as-runaway", "as above"),
    "join.go:517": ("equivalent-on-claim", "the error of extractColumnsFromExpr cannot occur for a column reference; the branch is reached only when both columns belong to the right side"),
    "join.go:475": ("gap-closed", "hashJoinAnalyze && -> ||: an equality next to order comparisons under AND was generated too rarely; a dedicated stream was added and catches it"),
    "join.go:479": ("outside-claim", "only reached for a bare column / call as an ON conjunct, which C04 does not generate (ON is built from column comparisons)"),
    "plsql.go:688": ("equivalent", "a leading dot in a selector is an empty first step that the reader skips: `.n1` reads like `n1`"),
    "plsql.go:340": ("equivalent", "after a successful evaluation the memo answers before the guard is consulted; after a failed one the second read is an error either way"),
    "plsql.go:1423": ("outside", "AWAIT (not modelled)"),
    "plsql.go:1427": ("outside", "AWAIT (not modelled)"),
    "processors.go:84": ("equivalent", "continue at the end of the loop body"),
    "sanitizer/sanitizer.go:201": ("equivalent", "an empty trailing part changes neither the parts that carry placeholders nor the joined text"),
    "sanitizer/sanitizer.go:302": ("equivalent-on-claim", "drops a one-byte tail after an unterminated e'...' literal at end of input: the template is not parseable SQL either way"),
    "compare/compare.go:95": ("equivalent", "equal magnitudes are answered by the case before"),
    "compare/compare.go:140": ("equivalent", "a byte converts to float64 exactly: the float path gives the same order"),
    "compare/compare.go:118": ("equivalent-on-claim", "non-negative int through the float path: differs only beyond 2^53 against another int; the domain now holds such neighbours (caught on re-run)"),
    "functions.go:167": ("equivalent", "MAX with > or >= returns the same value"),
    "join.go:150": ("equivalent", "sequential and parallel drivers return the same multiset; the property does not fix the order of PARALLEL output"),
    "join.go:210": ("equivalent", "continue at the end of the loop body"),
    "join.go:235": ("equivalent", "continue at the end of the loop body"),
    "join.go:219": ("equivalent", "a leading nil row is skipped by exec's type switch: same API result"),
    "join.go:376": ("equivalent", "break at the end of a case"),
    "join.go:563": ("equivalent", "removeDuplicates is dead code (no caller)"),
    "join.go:562": ("equivalent", "removeDuplicates is dead code (no caller)"),
    "plsql.go:198": ("equivalent", "-0 == 0: an OFFSET of 0 and no OFFSET are the same window"),
    "plsql.go:327": ("equivalent", "capacity hint of make"),
    "plsql.go:602": ("equivalent", "capacity hint of make"),
    "plsql.go:393": ("equivalent", "only the keys of groupDefinition are read"),
    "plsql.go:418": ("equivalent", "the key is appended twice: sorting by (k, k) equals sorting by k"),
    "plsql.go:897": ("equivalent", "single-column subquery rows: the loop body runs once"),
    "plsql.go:1711": ("equivalent", "groups are pairwise distinct: at most one matches"),
    "plsql.go:1764": ("equivalent", "an empty select list does not parse"),
    "plsql.go:1829": ("equivalent", "only the keys of the map are read"),
    "plsql.go:2001": ("equivalent", "a leading empty name in immediateFunctions matches no function"),
    "plsql.go:2014": ("equivalent", "a leading empty name in immediateFunctions matches no function"),
    "plsql.go:2012": ("outside", "RegisterExternalFunction: not modelled"),
    "processors.go:30": ("equivalent", "initial value only has to differ from the quote"),
    "processors.go:59": ("equivalent", "initial value only has to differ from the quote"),
    "plsql.go:1239": ("outside-claim", "a leading NULL in an IN list only matters for a NULL left operand, which C01 excludes; the generator now also feeds NULL operands to the model"),
    "plsql.go:1667": ("outside-claim", "aggregate over a non-column argument (SUM(1)): C03 speaks of columns"),
    "plsql.go:1575": ("equivalent-on-claim", "a SPIN / SPINASYNC panic is still recovered; only the error callback differs, which no property observes"),
    "plsql.go:278": ("outside", "WITH pushed into a nested UNION operand: chained UNION under an enclosing WITH; generated since (caught on re-run)"),
}
OUTSIDE_FUNCS = {"Copy": "INTO joins (not modelled)", "ReportFunc": "REPORT (not modelled)", "JoinMatchFunc": "INTO joins (not modelled)",
                 "BuildJoin": "USING joins (not modelled)", "HardCodedValueExprOpt": "option of unmodelled callers"}


def classify(r):
    key = "%s:%d" % (r["file"], r["line"])
    if key in NOTES:
        return NOTES[key]
    new = r["new"]
    if re.search(r"return (true|1|false|0), (nil, )?(err|UNSUPPORTED_CASE)", new) or re.search(r"return true, nil, err", new):
        return ("equivalent", "the value returned next to a non-nil error is never read")
    if "Ommit(false)" in new:
        return ("equivalent", "only the type of the Ommit marker is inspected")
    if r["func"] in OUTSIDE_FUNCS:
        return ("outside", OUTSIDE_FUNCS[r["func"]])
    if r["func"] == "FunExpr" and 1500 <= r["line"] <= 1545:
        return ("outside", "GLOBAL qualifier (not modelled)")
    if r["func"] == "SelectExpr" and r["line"] >= 1285:
        return ("outside", "FUSE (not modelled)")
    return ("OPEN", "")


def main():
    recs = {}
    for f in sorted(glob.glob(os.path.join(D, "lane*.jsonl"))) + sorted(glob.glob(os.path.join(D, "recheck*.jsonl"))):
        for l in open(f):
            r = json.loads(l)
            recs[(r["file"], r["line"], r["new"])] = r   # later files (re-runs) win
    c = collections.Counter(r["status"] for r in recs.values())
    total = len(recs)
    live = c["caught"] + c["survived"] + c["timeout"]
    out = ["# Single-site mutation sweep", "",
           "`bin/mutation_sweep.py` (operator-level mutants of plsql.go, join.go, selector.go, sort.go, heplers.go, processors.go, functions.go, compare/, sanitizer/; private copies of the repository and of the harness; quick checks mapped to the mutated function).", "",
           "| outcome | mutants |", "|---|---|",
           "| does not compile | %d |" % c["does-not-compile"],
           "| killed by the repository's own 267 tests | %d |" % c["killed-by-existing-tests"],
           "| pass the 267 tests, caught by a check | %d |" % c["caught"],
           "| pass the 267 tests, not caught (survived / timed out before hang detection existed) | %d |" % (c["survived"] + c["timeout"]),
           "| total | %d |" % total, "",
           "Of the %d mutants the test-suite lets through, the checks catch %d (%.0f %%)." % (live, c["caught"], 100.0 * c["caught"] / max(1, live)), ""]
    cls = collections.defaultdict(list)
    for r in recs.values():
        if r["status"] in ("survived", "timeout"):
            k, note = classify(r)
            cls[k].append((r, note))
    names = {"caught-as-runaway": "Caught, but as a runaway computation in a stage (counted as survived by the tool)", "gap-closed": "Real gaps, closed since",
             "equivalent": "Equivalent mutants (same observable behaviour)", "equivalent-on-claim": "Same behaviour on everything a property speaks about",
             "outside-claim": "Behaviour the property text excludes", "outside": "Code outside every model (features listed as not modelled)", "OPEN": "Open (not classified)"}
    out.append("## Survivors by class\n")
    for k in ("gap-closed", "caught-as-runaway", "equivalent", "equivalent-on-claim", "outside-claim", "outside", "OPEN"):
        out.append("### %s: %d\n" % (names[k], len(cls[k])))
        for r, note in sorted(cls[k], key=lambda x: (x[0]["file"], x[0]["line"])):
            out.append("* `%s:%d` %s — `%s` => `%s`%s" % (r["file"], r["line"], r["func"], r["old"][:70], r["new"][:70], (" — " + note) if note else ""))
        out.append("")
    open(os.path.join(D, "SUMMARY.md"), "w").write("\n".join(out) + "\n")
    print("\n".join(out[:16]))
    print({k: len(v) for k, v in cls.items()})


if __name__ == "__main__":
    main()
