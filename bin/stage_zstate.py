"""State-inventory obligations regenerated from /repo's current source (`vharness aux state`):
every package-level variable, every struct field and every digest call is one of the audited entries of
coq/Gen/StateRules.v.  The models are functions of (query, document, options); a pool, cache, memo field
or a weaker digest deciding identity is state / behaviour the model does not describe.

  C12 (evaluation is deterministic: same query on an equal input -> equal rows): package vars + all fields of package genql
  C04 / C06 / C09: the digest that decides key / row / element identity is the audited SHA-256
  C09: selector structs;  C16: everything of package sanitize
(loaded last — the file name sorts after the other stage_*.py — so that it can chain onto their obligations)"""
import os, re, json


def _gen(ctx):
    d = os.path.join(ctx["rundir"], "state")
    if os.path.exists(os.path.join(d, "State.vo")):
        return d, ""
    rc, out = ctx["run"]([ctx["exe"], "aux", "state", "-out", d], cwd=ctx["rundir"], env=ctx["goenv"], timeout=300)
    if rc != 0:
        return None, "translator failed: " + out[-400:]
    rc, out = ctx["run"](["coqc", "-Q", ctx["coq"], "GenqlV", "State.v"], cwd=d, timeout=600)
    if rc != 0:
        return None, "State.v does not compile: " + out[-400:]
    return d, ""


HEAD = ("From Coq Require Import List String Bool.\nFrom GenqlV Require Import Gen.StateRules.\nRequire Import State.\n"
        "Open Scope string_scope.\n")


def _prove(ctx, d, name, audited, observed):
    v = os.path.join(d, "Obl_%s.v" % name)
    open(v, "w").write(HEAD + "Theorem obl_%s : state_obligation (%s) (%s) = true.\nProof. vm_compute. reflexivity. Qed.\n"
                       "Corollary obl_%s_in : forall p, In p (%s) -> In p (%s).\nProof. exact (state_obligation_sound _ _ obl_%s). Qed.\n"
                       % (name, audited, observed, name, observed, audited, name))
    rc, out = ctx["run"](["coqc", "-Q", ctx["coq"], "GenqlV", "-Q", ".", "", os.path.basename(v)], cwd=d, timeout=600)
    if rc == 0:
        return True, ""
    w = os.path.join(d, "Off_%s.v" % name)
    open(w, "w").write(HEAD + "Eval vm_compute in (show (state_offenders (%s) (%s))).\n" % (audited, observed))
    rc2, out2 = ctx["run"](["coqc", "-Q", ctx["coq"], "GenqlV", "-Q", ".", "", os.path.basename(w)], cwd=d, timeout=600)
    strs = re.findall(r'"((?:[^"]|"")*)"', " ".join(out2.split()))
    return False, "not in the audited inventory: " + " ; ".join(strs[:24])[:900]


WHAT = {
    "C12": [("state-vars", "audited_vars", "pkg_vars", "every package-level variable ({pkg_vars}) is an audited registry, cache or constant"),
            ("state-fields", "audited_fields", 'by_prefix "genql." struct_fields', "every struct field of package genql is audited (no unmodelled per-query or per-option state)"),
            ("state-writes", "audited_writes", 'by_prefix "genql." field_writes', "every assignment to a struct field ({field_writes}) is by an audited writer (a prepared query is not rewritten while it runs)")],
    "C05": [("window-writes", "audited_writes", 'by_field ("limitDefinition" :: "offsetDefinition" :: "orderByDefinition" :: nil) field_writes', "only BuildLimit / BuildOrder write the window and order definitions (exec does not store a clamped window back)")],
    "C04": [("join-digest", "audited_hash", 'by_prefix "genql.ToHash" hash_calls', "the digest that decides join-key identity is SHA-256"),
            ("join-fields", "audited_fields", 'by_prefix "genql.Join" struct_fields ++ by_prefix "genql.HashedTable" struct_fields', "Join / HashedTable carry the audited fields only"),
            ("state-vars", "audited_vars", "pkg_vars", "no package-level state besides the audited registries (no pooled buffers)")],
    "C06": [("distinct-digest", "audited_hash", 'by_prefix "genql.ExecDistinct" hash_calls', "the digest that decides row identity under DISTINCT / UNION is SHA-256")],
    "C09": [("selector-digest", "audited_hash", 'by_prefix "genql.Distinct" hash_calls', "the digest that decides element identity under distinct=> is SHA-256"),
            ("selector-fields", "audited_fields", 'by_prefix "genql.IndexSelector" struct_fields ++ by_prefix "genql.PipeSelector" struct_fields', "compiled selector steps carry the audited fields only"),
            ("state-vars", "audited_vars", "pkg_vars", "no package-level state besides the audited selector cache and registries")],
    "C16": [("sanitizer-state", "audited_fields ++ audited_vars", 'by_prefix "sanitize" struct_fields ++ by_prefix "sanitize" pkg_vars', "a Command is its parts and nothing else; package sanitize has no package-level state"),
            ("sanitizer-writes", "audited_writes", 'by_prefix "sanitize" field_writes', "only the lexer states write lexer fields; Sanitize writes no field of the Command")],
    "C03": [("state-vars", "audited_vars", "pkg_vars", "no package-level state besides the audited registries (no pooled key buffers)"),
            ("query-fields", "audited_fields", 'by_prefix "genql.Query" struct_fields', "a query carries the audited fields only (no unmodelled memo)")],
    "C01": [("query-fields", "audited_fields", 'by_prefix "genql.Query" struct_fields', "a query carries the audited fields only (no unmodelled memo of subquery results or literal lists)"),
            ("state-vars", "audited_vars", "pkg_vars", "no package-level state besides the audited registries")],
    "C02": [("query-fields", "audited_fields", 'by_prefix "genql.Query" struct_fields', "a query carries the audited fields only"),
            ("state-vars", "audited_vars", "pkg_vars", "no package-level state besides the audited registries")],
    "C07": [("query-fields", "audited_fields", 'by_prefix "genql.Query" struct_fields', "a query carries the audited fields only (no unmodelled memo of CTE or subquery results)"),
            ("state-vars", "audited_vars", "pkg_vars", "no package-level state besides the audited registries")],
    "C08": [("query-fields", "audited_fields", 'by_prefix "genql.Query" struct_fields', "a query carries the audited fields only (CopyQuery copies what the model copies)"),
            ("state-vars", "audited_vars", "pkg_vars", "no package-level state besides the audited registries")],
}


_GENERIC = [("state-vars", "audited_vars", "pkg_vars", "no package-level state besides the audited registries, selector cache and constants ({pkg_vars} variables)"),
            ("state-fields", "audited_fields", 'by_prefix "genql." struct_fields', "every struct field of package genql is audited ({struct_fields} fields in all packages)")]
for _p in ("C10", "C11", "C13", "C14", "C17", "C18", "C19", "C20"):
    WHAT.setdefault(_p, [])
    WHAT[_p] = WHAT[_p] + [w for w in _GENERIC if w[0] not in [x[0] for x in WHAT[_p]]]
_LIT = ("size-literals", "audited_literals", "size_literals", "no size threshold in the source: every integer literal of two or more digits ({size_literals}) is an audited radix / bit-size argument (the models treat every table, key and text size alike)")
for _p in ("C01", "C02", "C03", "C04", "C05", "C06", "C07", "C08", "C09", "C12", "C15", "C16", "C19", "C20"):
    WHAT.setdefault(_p, []).append(_LIT)
WHAT["C19"].append(("state-writes", "audited_writes", 'by_prefix "genql." field_writes', "every assignment to a struct field is by an audited writer (a failed call leaves nothing behind in the query)"))
WHAT["C20"].append(("state-writes", "audited_writes", 'by_prefix "genql." field_writes', "every assignment to a struct field is by an audited writer (variables are written by SETVAR / WithVars only)"))


def make(pid, prev):
    def structural(ctx):
        out = list(prev(ctx)) if prev else []
        d, err = _gen(ctx)
        if d is None:
            return out + [("state-inventory", False, err)]
        n = json.load(open(os.path.join(d, "state.json")))
        for name, aud, obs, what in WHAT[pid]:
            ok, det = _prove(ctx, d, name.replace("-", "_"), aud, obs)
            out.append(("state-inventory/%s (regenerated from source): %s" % (name, what.format(**n)), ok, det))
        return out
    return structural


def install(CONFIG, EXTRA_TB, ASSUME):
    tb = ("translator harness/state.go (go/ast, syntactic: package-level var declarations, struct type declarations, selector "
          "expressions on imported hash packages) and the audited inventory coq/Gen/StateRules.v; state hidden in values of "
          "dynamic type (closures, any) is not seen by it")
    for pid in WHAT:
        cfg = CONFIG.setdefault(pid, {})
        cfg["structural"] = make(pid, cfg.get("structural"))
        EXTRA_TB.setdefault(pid, []).append(tb)
