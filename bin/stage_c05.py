"""C05 comparator bridge: the engine tables of the correspondence are JSON-like (every number a float64), but ORDER BY
must sort rows whose keys are Go integers of any kind too. This stage runs the C15 domain (every Go numeric kind x
boundary values, incl. neighbours beyond 2^53 that collide as float64) through sort.go's Compare — the comparator
Sort hands to sort.Slice — on two one-key rows, ascending and descending, and checks it in Coq against
`sort_expect` over the exact comparison model (Run/C15Run.v). A mismatch is a C05 violation: ORDER BY would misplace
those two rows."""
import json, os
from concurrent.futures import ThreadPoolExecutor


def bridge(ctx):
    res = {"name": "order-by-comparator-bridge", "ok": False, "violations": [], "coverage": {}}
    d = os.path.join(ctx["rundir"], "c05bridge")
    rc, out = ctx["run"]([ctx["exe"], "gen", "C15", "-tier", "quick", "-seed", str(ctx["seed"]), "-out", d, "-shard", "1500"],
                         cwd=ctx["rundir"], env=ctx["goenv"], timeout=1200)
    if rc != 0:
        res["detail"] = "bridge run failed: " + out[-300:]
        res["broken"] = "stage:order-by-comparator-bridge did not complete: " + out[-200:].replace("\n", " ")
        return res
    meta = json.load(open(os.path.join(d, "meta.json")))
    recs = {r["id"]: r for r in json.load(open(os.path.join(d, "cases.json")))}
    bad, skipped, failed = [], 0, []
    with ThreadPoolExecutor(max_workers=16) as ex:
        for shard, pairs, err, dt in ex.map(lambda s: ctx["eval_shard"](d, s), meta.get("shards", [])):
            if pairs is None:
                failed.append((shard, err))
                continue
            for cid, code in pairs:
                if code == 4:
                    skipped += 1
                else:
                    bad.append((cid, code))
    if failed:
        res["detail"] = "coqc failed on " + failed[0][0]
        res["broken"] = "stage:order-by-comparator-bridge coqc failed: " + failed[0][1][-200:].replace("\n", " ")
        return res
    res["coverage"] = {"cases": meta.get("evaluations", 0), "out_of_model": skipped,
                       "rule": "all ordered pairs of the C15 quick domain as one-key rows through genql.Compare (sort.go), ASC and DESC"}
    res["ok"] = not bad
    res["detail"] = "%d of %d key pairs ordered differently from the exact comparison" % (len(bad), meta.get("evaluations", 0))
    for cid, code in bad[:3]:
        p = os.path.join(ctx["root"], "replays", "C05-%s-%d-comparator-%d.json" % (ctx["tier"], ctx["seed"], cid))
        r = recs.get(cid, {})
        json.dump({"property": "C05", "kind": "ORDER BY comparator (sort.go Compare) disagrees with the exact comparison model on two one-key rows {k:a}, {k:b}",
                   "input": r.get("input"), "observed": r.get("note"), "replay": "./bin/check C15 --replay <this file> (same input format)"},
                  open(p, "w"), indent=1)
        res["violations"].append((p, ""))
    return res


def install(CONFIG, EXTRA_TB, ASSUME):
    CONFIG.setdefault("C05", {}).setdefault("stages", []).append(bridge)
    EXTRA_TB.setdefault("C05", []).append("the comparator bridge reuses Model/Compare.v (C15) and Run/C15Run.v sort_expect; Go integer keys are checked only pairwise through the comparator, not through whole sorted tables")
