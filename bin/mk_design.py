#!/usr/bin/env python3
"""Assembles /verif/DESIGN.md from notes/design_head.md, the builders' reports (integration/*.md),
notes/design_extra/*.md, seeded/*/meta.json, known_findings.json and notes/design_tail.md."""
import glob, json, os, re
ROOT = os.path.dirname(os.path.dirname(os.path.abspath(__file__)))


def read(p):
    return open(os.path.join(ROOT, p)).read()


def design_paragraph(path):
    txt = open(path).read()
    m = re.search(r"^##[^\n]*DESIGN[^\n]*\n(.*?)(?=^## |\Z)", txt, re.S | re.M)
    return m.group(1).strip() if m else ""


def main():
    props = [json.loads(l) for l in open(os.path.join(ROOT, "properties.jsonl"))]
    out = [read("notes/design_head.md").rstrip(), ""]
    out.append("## 4. The properties, one by one\n")
    out.append("Every property is claimed (MANIFEST `not_applicable` is empty unless stated at the top of §6). For each: what was "
               "built (models, theorems, tie), taken from the builder's report; the seeded changes tried against it; its check.\n")
    seeded = {}
    for mp in sorted(glob.glob(os.path.join(ROOT, "seeded", "*", "meta.json"))):
        m = json.load(open(mp))
        seeded.setdefault(m["property"], []).append((os.path.basename(os.path.dirname(mp)), m))
    for p in props:
        pid = p["id"]
        out.append("### %s — %s\n" % (pid, p["title"]))
        paras = []
        extra = os.path.join(ROOT, "notes", "design_extra", pid + ".md")
        if os.path.exists(extra):
            paras.append(open(extra).read().strip())
        for rp in sorted(glob.glob(os.path.join(ROOT, "integration", pid + "*.md"))):
            d = design_paragraph(rp)
            if d:
                paras.append(d + "\n\n(Full report: `%s`.)" % os.path.relpath(rp, ROOT))
        out.append("\n\n".join(paras) if paras else "_(in progress)_")
        ev = os.path.join(ROOT, "evidence", pid + ".json")
        if os.path.exists(ev):
            e = json.load(open(ev))
            c = e["coverage"]
            out.append("\n**Check.** `./bin/check %s` — last recorded %s run: %d/%d obligations, %d cases (%d distinct non-trivial, %d out of model), %.0f s."
                       % (pid, e["tier"], c.get("discharged", 0), c.get("obligations", 0), c.get("evaluations", 0),
                          c.get("distinct_nontrivial", 0), c.get("out_of_model", 0), e.get("wall_s", 0)))
        if pid in seeded:
            out.append("\n**Seeded changes** (independent sub-agents given only the property text; each confirmed in a scratch worktree: "
                       "existing suite passes, demonstration fails with the change and passes without):\n")
            for name, m in seeded[pid]:
                out.append("* `seeded/%s` — %s *Needs:* %s **%s.**" % (name, (m.get("summary") or "").strip().replace("\n", " ")[:420],
                                                                    (m.get("needs") or "").strip().replace("\n", " ")[:300], m.get("result")))
        out.append("")
    out.append(read("notes/design_tail.md").rstrip())
    kf = json.load(open(os.path.join(ROOT, "known_findings.json")))["findings"]
    out.append("\n### Defect table (from known_findings.json)\n")
    out.append("| id | property | status | commit | what |\n|---|---|---|---|---|")
    for k in sorted(kf, key=lambda k: (k["property"], k["id"])):
        out.append("| %s | %s | %s | %s | %s |" % (k["id"], k["property"], k["status"], k.get("commit") or "", k["what"].replace("|", "\\|")))
    open(os.path.join(ROOT, "DESIGN.md"), "w").write("\n".join(out) + "\n")


if __name__ == "__main__":
    main()
