"""Per-property configuration for bin/check."""
import os, sys
sys.path.insert(0, os.path.dirname(os.path.abspath(__file__)))

COMMON_TB = [
    "Coq 8.16.1 kernel + vm_compute (no native_compute); coqchk re-check in the thorough tier",
    "hand-written Gallina model of the anchored Go code (modelled, not verified from source); tied to /repo by the correspondence run of this check",
    "vharness (Go generators, canonicaliser, Go->Coq term printer) and bin/check (orchestrator)",
    "no extraction; no Axiom/Parameter/Admitted declared by the development",
]

EXTRA_TB = {
    "C15": ["Go's integer->float64 conversion is exact on the claimed range (outside it the model answers OutOfModel and the case is skipped and counted)",
            "fmt %v of numbers: Base/Fmt.v (exact decimal expansion, <=15 significant digits; validated against Go by the same correspondence)"],
}

EXTRA_TB["C09"] = [
  "Go regexp leftmost-first semantics of the three selector patterns is transcribed by hand (Model/SelToken.v m_full/m_array/m_pipe + find_all); tied to the real regexp package by the token-list comparison of every case",
  "strings.Trim*/Split/SplitN/HasPrefix, strconv.Atoi (64-bit int) modelled concretely; fmt %v/%d/%f and strconv.ParseFloat are executable oracles exact on a stated class and OutOfModel elsewhere (Model/SelFmt.v, Base/Value.fmt_value); sha256+base64 in Distinct assumed injective on the texts that occur",
  "data of Go type func() (any, error) (Reader's thunk cases) and functions added with RegisterTopLevelFunction are outside the model; MixObject on colliding flattened keys is OutOfModel (Go map iteration order)",
  "purity (document unchanged) is observed by deep comparison on every case, not proved (trivial in Gallina); the cache is modelled as the identity, its locking belongs to C13",
]

EXTRA_TB["C17"] = [
  "Parse/Build/Exec are an oracle in C17_meaning / C17_wrapped (any function of the data and of the text handed to the parser); the engine-level equality is additionally observed on the real engine by the metamorphic stream of the correspondence",
  "Spec/LexDoc.v: the meaning of 'the same query in the other spelling' (segments Raw|SQ|BT|DQ|Open|Close, render PG|MY x Idiom|Arr) and the well-formedness predicates wf_quotes / wf_arrays",
  "MySQL lexical rules for string bodies / backtick identifiers as stated in body_ok / bt_ok (backslash escapes + doubled delimiter; doubled backtick, no backslash escape)",
]

ENGINE_TB = [
  "engine model: Model/Ast.v, Eval.v, Exec.v, Like.v, Num.v, Join.v mirror plsql.go / sort.go / join.go / functions.go aggregates (repaired code); sqlparser's grammar is an oracle: the harness renders the query AST to fully parenthesised SQL for the real engine and to a Coq term for the model",
  "numbers are Coq primitive floats (same IEEE-754 binary64 operations as Go's float64, computed by the VM); fmt %v of numbers per Base/Fmt.v on a stated class (else OutOfModel, counted); strings.ToLower on ASCII (generators use caseless non-ASCII runes only); regexp.QuoteMeta / '.' / '.*' semantics assumed as stated in Model/Like.v",
  "sort.Slice is an oracle (any sorted permutation); the executable instance is a stable insertion sort; the sha256 fingerprint over the Go-syntax (%#v) text of a row is assumed injective (instance: identity + veqb)",
]
for _p in ("C01", "C02", "C03", "C04", "C05", "C06", "C07", "C08"):
    EXTRA_TB[_p] = list(ENGINE_TB)

EXTRA_TB["C16"] = [
  "Model/MySqlString.v is a hand transcription of sqlparser v2.0.3 token.go (scanString/scanStringSlow/SQLDecodeMap and the Scan dispatcher as a byte machine); it is validated on every run against the REAL tokenizer: string-token values and token start offsets of every template and every output",
  "sqlparser's grammar and genql's evaluator are oracles: AST shape (literals normalised) and echo / WHERE-filter results are observed on the real code and compared with the specification, not modelled",
  "strconv.FormatInt = Base/Fmt.Z_to_dec; strconv.FormatFloat(x,'f',-1,64) is modelled exactly where the exact decimal expansion has <= 15 significant digits (fmt_f) and is an oracle elsewhere; utf8.DecodeRuneInString is transcribed (decode_rune)",
]
EXTRA_TB["C20"] = [
  "Model/Vars.v mirrors functions.go GetVarFunc/SetVarFunc (Guard, key = %v of the first argument, nil-map write = panic, Ommit result) and the order plsql.go reaches them in (WHERE over all rows first, rows in source order, items left to right, arguments left to right, exec's recover frame); the caller's map is an explicit argument/result",
  "expressions are evaluated by Model/Eval.v with its call hook instantiated by a read-only view of the current store; sync.RWMutex is not modelled (locking belongs to C13)",
  "Spec/VarsHistory.v (what a select list denotes as a register history) is part of the statement of C20_linearisation and is read, not proved",
]

EXTRA_TB["C19"] = list(ENGINE_TB) + [
  "the fault-injecting user function is modelled as a PURE function of its arguments (Model/Faults.v fault_call): FAULT(tag, x[, ret]) fails iff (tag, x) is the trigger; the harness gives every call site a distinct literal tag and a row-identifying argument, fails the k-th invocation BY COUNT on the real code and hands the model the (tag, x) pair of that invocation",
  "RAISE / RAISE_WHEN transcribed from functions.go; qualifiers: none and SCOPED modelled, ONCE/GLOBAL/ASYNC/SPIN answer OutOfModel (ONCE cases are still checked on the real code for (no rows, error) and usability)",
  "calls inside a join's ON clause: fault_join = exec_join with the hook threaded into the ON evaluator; faithful for call arguments without column references only",
  "'usable afterwards' is observed on the real code after EVERY run (3 follow-up queries on the same document vs. a pristine deep copy + deep comparison of the document); its proof side is C11 + absence of cross-query state",
]
EXTRA_TB["C18"] = [
  "standard library as oracles (record `oracles` in Model/Funcs.v): encoding/gob, base64.URLEncoding, base32.StdEncoding, crypto sha1/sha256/sha512/md5, strings.ToLower/ToUpper, strconv.ParseFloat/Atoi; the laws used are explicit premises of the theorems (codec_laws, hash_len_law, strconv_law); encoding/hex is modelled exactly",
  "executable oracle instance (Model/FuncsInst.v): outputs depending on gob/base64/base32/hashes are compared through the laws on the Go side (round trip through the engine's own DECODE, determinism, hex length/charset), never byte for byte",
  "int(float64) modelled as on amd64; non-JSON Go values are represented as reserved single-key objects on both sides",
]
EXTRA_TB["C12"] = list(ENGINE_TB)

ASSUME = {
    "C19": [
  "synchronous evaluation only (the property text excludes ASYNC/SPIN); AWAIT not generated",
  "theorems compare two runs of the same query on the same document under two call hooks related pointwise by R (same answer, or Err, or Panic when the panicking variant is allowed); the FAULT hook is one instance",
  "C19_type_error_is_error_*: the outcome is Err unless an earlier row already left the model (then OutOfModel); it is never Ok",
    ],
    "C18": [
  "arguments are JSON-like values; NaN/Inf only as results of CHANGETYPE (skipped)",
  "not modelled (not generated): ASYNC/SPIN/ONCE/GLOBAL qualifiers and AWAIT, the state change of SETVAR and the callback of REPORT (C20/C14), FUSE/DEFAULTKEY beyond arity/NULL/type errors",
  "CONCAT with a NULL argument: known finding D42 (signature tag concat.null-arg)",
  "SETVAR without WithVars is a nil-map write recovered by exec's frame: an error at the API level on both trees (C18_only_panic_is_setvar_nil_map)",
    ],
    "C12": [
  "query_ok: no user-chosen name `<-`; inside subqueries no `SELECT * FROM dual` and no pure-`<-` path projected as a value (a query that explicitly selects the back reference gets it; the Go code deletes the `<-` key of star projections in a post-processor)",
  "the multiset of rows is order-independent, but a float aggregate over a join can depend on the order in which rows are added; after the fix that makes join output follow the left table's order this no longer varies between runs (PARALLEL variants: batches are concatenated in key order)",
  "wrapper / pointer / thunk / cycle freedom is a typing fact of the model's value type; on the real code it is observed by the Go-type walk, the cycle check and the encoding/json round trip of every result",
  "value tuples used as values are modelled (ETuple / RTuple / unwrapped); outside the model, not repaired: a tuple member that is a call with a qualifier (directly or as a CASE branch: the ASYNC slot / the SPIN marker stay members of the array on the real code), a tuple as an element of an IN list",
    ],
    "C04": [
  "wf_join: both sides are aliased rows {alias: row} with distinct aliases; ON is an AND/OR combination of comparisons between one x.col and one y.col; key values are scalars whose %v text determines them within a column (text_faithful: one scalar kind per key column) and zero_safe per comparison; hash theorems additionally need hash_faithful (vcompare = 0 <-> equal key text after -0 normalisation), discharged from FloatAxioms.eqb_spec/ltb_spec for numbers",
  "outside the premises (mixed-kind key column such as 9 and \"9\", or -0 against a string) the engine groups rows by key text and may deviate from the textbook; refuted-lemmas record the witnesses; the property speaks of keys of either scalar kind per column, so these are scope limits, not findings",
  "Go's sync.Mutex / WaitGroup semantics are an oracle for the PARALLEL theorem's thread program; INTO and USING joins are not modelled",
    ],
    "C16": [
  "templates are well-formed for the consumer (Spec/C16Spec.wf_template): a $n placeholder stands at a token boundary, has <= 18 digits; no quote glued into an @variable; x'..'/b'..' literals well-formed; no empty backtick identifier; a float exponent sign is followed by a digit",
  "[]byte and time.Time arguments are outside the property (string, integer, float, boolean, NULL) and not modelled",
  "C16_shape (template-level token equality, shape_ok) is proved for every template/argument list on which the model's sanitizer answers Ok; a finite float whose exact decimal expansion exceeds 15 significant digits is OutOfModel (there the token shape is only evaluated on the real output at run time)",
    ],
    "C20": [
  "SETVAR is modelled where it is a whole select item; nested inside another expression, inside WHERE, or under a qualifier it is OutOfModel; GETVAR may occur anywhere inside SETVAR's value expression and in WHERE; register names are call-free expressions of the row",
  "queries are single-table SELECTs (or FROM dual) without GROUP BY / DISTINCT / ORDER BY / LIMIT / joins / subqueries; WHERE is evaluated for all rows before any select item",
  "a query that fails half-way keeps the writes made until then (no rollback) and this is compared too",
  "C20_across_queries is stated for queries without WHERE and a history that is not cut short; otherwise covered per query by C20_across_queries_step + C20_linearisation_where",
    ],
    "C07": [
  "staging theorems: the outer SELECT is in the filter/projection/aggregate/order grammar (blind_select), the inner statement does not read the CTE being defined (avoids), inner results are arrays; results other than OutOfModel (fuel monotonicity excludes it)",
  "a subquery sees the enclosing query's CTEs through `<-` in FROM position (frames c_up; C07_up_* theorems); a CTE read through `<-` in COLUMN position (`<-.c.id` as a value) is evaluated mid-path by the real Reader and is NULL in the model: not generated",
  "subquery_standalone / in_subquery / exists theorems take `no_thunks ctx` (no CTE of an enclosing query in scope): with CTEs in scope the general form subquery_scoped applies; a CTE name re-declared inside its own body is Err in the model (guard by name) and succeeds in the code: not generated",
  "EXISTS with a select list other than * : only the implication is proved (C07_exists_select_list_partial); on a column-name clash the outer row's value wins, as in the code",
    ],
    "C06": ["row equivalence = veqb (numbers by IEEE == plus sign of zero, NaN = NaN); FeqLaws (symmetry, transitivity of feqb) is a premise discharged from the stdlib's FloatAxioms.eqb_spec; the sha256 fingerprint over the %#v text is assumed injective",
            "UNION theorems assume branch rows are objects with sorted unique keys (what the engine produces), so that the union's SELECT * is the identity"],
    "C08": ["nested claims for `simple` queries (no DISTINCT / ORDER BY / LIMIT / GROUP BY at the outer level: the property speaks of filter/projection queries); the mix=> half additionally needs plain_query (no aggregates or subqueries): SELECT a, COUNT(*) legitimately differs between a nested source and its flattening"],
    "C02": ["CASE conditions must be operator-built booleans (a bool column as a CASE/WHERE condition is an error in this engine); NULL handling is left-biased (missing + 'x' = NULL, 'x' + missing = error) and the specification states that order explicitly",
            "`SELECT *` combined with an item aliased `<-`: Go deletes the `<-` key in a post-processor, the model keeps it; such aliases are not generated"],
    "C11": ["the generic trace theorem is tied to the Go source by the regenerated mutation-site obligation (syntactic, intraprocedural provenance; audited entries justified in Gen/SiteRules.v) and by deep comparison of the document after every generated query, incl. queries failing part-way; the Go runtime's map/slice aliasing semantics are as Go specifies"],
    "C03": ["grouping claims for object rows in which every grouping column (a flat name, a key path a.b, an indexed selector a[i]) has a value that is NULL/missing, bool, string or a non-NaN number (rows_ok); arrays/objects as key values make Go's == panic (error) and are generated only with a single grouping column; a row without a value for a grouping column makes the query fail (C03_unreadable_key_is_refused)",
            "grouping columns are modelled up to key steps and single [i] index steps (Model/Ast.v kstep); name and steps of a column are tied together by the harness (qast.go parseGroupKey) and by Proofs/C03PathReader.v key_texts_parse for the generated texts; ranges, pipes, quoted keys, `<-` and functions in a grouping column are not generated",
            "FloatEqLaws / FloatLtLaws are premises (proved from the stdlib FloatAxioms eqb_spec/ltb_spec in Proofs/C03FloatEq.v)",
            "engine quirks mirrored, outside the property text: AVG divides by the entry count including NULLs; COUNT(col) counts NULLs; MIN/MAX start from +-MaxFloat64"],
    "C05": ["ordering claims are made for key columns holding one scalar kind (sort_scope: vcompare is a three-way total preorder on each key column's non-NULL values; NumLaws premise for numbers, i.e. no NaN)",
            "two rows that are both NULL on a non-final key are not ordered by the later keys (the comparator stops at the first NULL); the property mentions NULL only for a single key, the harness masks later keys of such rows",
            "LIMIT/OFFSET literals are non-negative (the parser cannot produce others)"],
    "C01": ["claim restricted to columns holding non-NULL values of one scalar kind matching the constants (in_scope); IS [NOT] TRUE/FALSE on NULL or a non-bool is an error in this engine, not SQL's answer",
            "subqueries are row-scoped: a root-level table inside a subquery is addressed through `<-`"],
    "C17": [
  "a double-quoted identifier whose NAME ends in a backslash is outside the claim (the dialect spells a double quote as backslash+quote and has no spelling for a backslash before the closing quote)",
  "a backslash outside quotes that is the last byte before a quote or bracket is outside the array claim (FindArrayIndex skips the byte after any unquoted backslash); backslashes outside quotes are not SQL",
  "array rewrite applied to text that still has double quotes (IdiomaticArrays alone / swapped order): the spelled body must be a MySQL string body (wf_arrays PG)",
    ],
    "C09": [
  "documents are JSON-like (nil, bool, float64, string, []any, map[string]any), no NaN/Inf",
  "C09_parse_print / C09_denotation and corollaries: wf_sel (keys without a quote and without '::'; untyped pipe keys are identifiers; typed pipe keys additionally without | { }; at least one dimension per bracket; indices < 2^63; function names are identifiers)",
  "OutOfModel cases (pipe/distinct on numbers outside the exactly-formatted class, ParseFloat outside plain decimals, mix key collisions) are skipped and counted",
    ],
    "C15": ["NaN and infinities are outside the claim (not generated)",
            "integers that do not convert to float64 exactly are outside the claim when compared with a float (skipped as out-of-model, counted)"],
}


def trusted_base(pid, axioms):
    tb = list(COMMON_TB) + EXTRA_TB.get(pid, [])
    if axioms:
        tb.append("axioms reported by Print Assumptions under Properties/%s.v: %s" % (pid, ", ".join(axioms)))
    else:
        tb.append("Print Assumptions under Properties/%s.v: closed under the global context (no axioms)" % pid)
    return tb


def assumptions_text(pid):
    return ASSUME.get(pid, [])


CONFIG = {
    "C15": {"shard": 600, "max_out_of_model": 0.10},  # integers beyond 2^53 against floats are outside the claim ("within the exactly-representable range")
    "C09": {"shard": 200},
    "C17": {"shard": 400},
    "C16": {"shard": 300}, "C20": {"shard": 90}, "C19": {"shard": 60}, "C18": {"shard": 400},
    "C11": {"shard": 300}, "C10": {"shard": 300}, "C12": {"max_out_of_model": 0.10, "shard": 150},
    "C01": {"shard": 120}, "C02": {"shard": 120}, "C03": {"shard": 100}, "C04": {"shard": 110},
    "C05": {"shard": 120}, "C06": {"shard": 100}, "C07": {"shard": 100}, "C08": {"shard": 100},
}

# plug-ins: every bin/stage_*.py may define install(CONFIG, EXTRA_TB, ASSUME) to add
#   CONFIG[pid]["structural"] = fn(ctx) -> [(name, ok, detail)]      regenerated obligations
#   CONFIG[pid]["stages"]     = [fn(ctx) -> {"name","ok","detail","coverage","violations":[(path,suffix)],"known":[lines],"broken":str}]
# ctx keys: pid, tier, seed, rundir, root, coq, exe (harness binary), run(cmd,cwd,timeout,env), goenv, log, replay
import glob, importlib
for _f in sorted(glob.glob(os.path.join(os.path.dirname(os.path.abspath(__file__)), "stage_*.py"))):
    _m = importlib.import_module(os.path.basename(_f)[:-3])
    if hasattr(_m, "install"):
        _m.install(CONFIG, EXTRA_TB, ASSUME)
