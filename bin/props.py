"""Per-property configuration for bin/check."""
import os, sys
sys.path.insert(0, os.path.dirname(os.path.abspath(__file__)))

COMMON_TB = [
    "Coq 8.16.1 kernel + vm_compute (no native_compute); coqchk re-check in the thorough tier",
    "hand-written Gallina model of the anchored Go code (modelled, not verified from source); tied to /repo by the correspondence run of this check",
    "vharness (Go generators, canonicaliser, Go->Coq term printer) and bin/check (orchestrator)",
    "no extraction; no Axiom/Parameter/Admitted declared by the development",
]

EXTRA_TB = {
    "C15": ["Go's integer->float64 conversion is exact on the claimed range (outside it the model answers OutOfModel and the case is skipped and counted)",
            "fmt %v of numbers: Base/Fmt.v (exact decimal expansion, <=15 significant digits; validated against Go by the same correspondence)"],
}

ASSUME = {
    "C15": ["NaN and infinities are outside the claim (not generated)",
            "integers that do not convert to float64 exactly are outside the claim when compared with a float (skipped as out-of-model, counted)"],
}


def trusted_base(pid, axioms):
    tb = list(COMMON_TB) + EXTRA_TB.get(pid, [])
    if axioms:
        tb.append("axioms reported by Print Assumptions under Properties/%s.v: %s" % (pid, ", ".join(axioms)))
    else:
        tb.append("Print Assumptions under Properties/%s.v: closed under the global context (no axioms)" % pid)
    return tb


def assumptions_text(pid):
    return ASSUME.get(pid, [])


CONFIG = {
    "C15": {"shard": 1200},
}

try:
    import stages
    stages.install(CONFIG)
except ImportError:
    pass
