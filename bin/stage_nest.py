"""ASYNC x nesting matrix (C06, C12, C13, C14): `vharness gen ASYNCNEST` — one ASYNC select item inside every pair of nesting
levels (derived table, CTE, UNION side, join operand, inner dimension, row-scoped subquery, EXISTS) — evaluated with
EngineRun.check_c12: when Exec returns every ASYNC call has completed and its value sits in its column (C14), the
result holds no unresolved slot (C12), and nobody is still writing to it (C13). A generated sub-run like the C05
comparator bridge; a mismatch is reported as a violation of the property whose check ran it."""
import json, os
from concurrent.futures import ThreadPoolExecutor


def make(pid):
    def stage(ctx):
        res = {"name": "async-nesting-matrix", "ok": False, "violations": [], "coverage": {}}
        d = os.path.join(ctx["rundir"], "asyncnest")
        rc, out = ctx["run"]([ctx["exe"], "gen", "ASYNCNEST", "-tier", ctx["tier"], "-seed", str(ctx["seed"]), "-out", d, "-shard", "60"],
                             cwd=ctx["rundir"], env=ctx["goenv"], timeout=1800)
        if rc != 0:
            prog = os.path.join(d, "progress.json")
            if os.path.exists(prog) and rc != 3:
                p = os.path.join(ctx["root"], "replays", "%s-%s-%d-asyncnest-died.json" % (pid, ctx["tier"], ctx["seed"]))
                json.dump({"property": pid, "input": json.load(open(prog)).get("input"),
                           "verdict": "the harness died or hung while executing this case on the real code: " + out[-400:]}, open(p, "w"), indent=1)
                res["violations"].append((p, ""))
                res["detail"] = "harness died on a case"
                return res
            res["detail"] = "sub-run failed: " + out[-300:]
            res["broken"] = "stage:async-nesting-matrix did not complete: " + out[-200:].replace("\n", " ")
            return res
        meta = json.load(open(os.path.join(d, "meta.json")))
        recs = {r["id"]: r for r in json.load(open(os.path.join(d, "cases.json")))}
        bad, skipped, failed = [], 0, []
        with ThreadPoolExecutor(max_workers=16) as ex:
            for shard, pairs, err, dt in ex.map(lambda s: ctx["eval_shard"](d, s), meta.get("shards", [])):
                if pairs is None:
                    failed.append((shard, err))
                    continue
                for cid, code in pairs:
                    if code == 4:
                        skipped += 1
                    else:
                        bad.append((cid, code))
        if failed:
            res["detail"] = "coqc failed on " + failed[0][0]
            res["broken"] = "stage:async-nesting-matrix coqc failed: " + failed[0][1][-200:].replace("\n", " ")
            return res
        res["coverage"] = {"cases": meta.get("evaluations", 0), "out_of_model": skipped, "distribution": meta.get("distribution"), "rule": meta.get("rule")}
        res["ok"] = not bad and skipped * 10 <= meta.get("evaluations", 0)
        res["detail"] = "%d of %d nested ASYNC queries differ from the model or leak a slot (%d outside the model)" % (len(bad), meta.get("evaluations", 0), skipped)
        if not bad and not res["ok"]:
            res["broken"] = "stage:async-nesting-matrix: %d of %d cases outside the model" % (skipped, meta.get("evaluations", 0))
        for cid, code in bad[:3]:
            p = os.path.join(ctx["root"], "replays", "%s-%s-%d-asyncnest-%d.json" % (pid, ctx["tier"], ctx["seed"], cid))
            r = recs.get(cid, {})
            json.dump({"property": pid, "kind": "nested ASYNC query: result differs from the model / holds an unresolved slot / differs between runs",
                       "input": r.get("input"), "observed": r.get("note"), "tags": r.get("tags"),
                       "replay": "./bin/check C12 --replay <this file> (engine input format)"}, open(p, "w"), indent=1)
            res["violations"].append((p, ""))
        return res
    return stage


def install(CONFIG, EXTRA_TB, ASSUME):
    for pid in ("C06", "C12", "C13", "C14"):
        CONFIG.setdefault(pid, {}).setdefault("stages", []).append(make(pid))
