#!/usr/bin/env python3
"""mutation_sweep.py --lane N --lanes K [--max M] [--seed S]

Systematic single-site mutation testing of the tie between models and code. Works on a PRIVATE copy of
the repository and of the harness (never touches /repo): for every sampled mutant that still compiles
and passes the repository's own 267 tests, the quick checks mapped to the mutated function are run
with VERIF_HARNESS_DIR / VERIF_REPO pointing at the private copy and VERIF_NO_EVIDENCE=1.
Results: /verif/notes/mutation_sweep/lane<N>.jsonl (one record per mutant) — survivors are the
interesting ones (equivalent mutants, or gaps in a generator)."""
import argparse, json, os, random, re, shutil, subprocess, sys, time

ROOT = os.path.dirname(os.path.dirname(os.path.abspath(__file__)))
GOENV = dict(os.environ, GOFLAGS="-mod=mod", GOPROXY="off", GOSUMDB="off", GOTOOLCHAIN="local")

# function name -> properties whose checks should notice a change there
FUNC_PROPS = {
    # plsql.go
    "ComparisonExpr": ["C01"], "AndExpr": ["C01"], "OrExpr": ["C01"], "NotExpr": ["C01"], "IsExpr": ["C01"],
    "BetweenExpr": ["C01"], "RegexComparison": ["C01"], "ExecWhere": ["C01"], "ValueTupleExpr": ["C01"],
    "BinaryExpr": ["C02"], "UnaryExpr": ["C02"], "CaseExpr": ["C02"], "SelectExpr": ["C02", "C12", "C20", "C14"], "ExecSelect": ["C02", "C03"],
    "LiteralExpr": ["C02"], "Expr": ["C02", "C01"], "ProcessAlias": ["C07", "C04"],
    "ExecGroupBy": ["C03"], "ExecHaving": ["C03"], "AggrFunExpr": ["C03"], "AggrFuncArgReader": ["C03"],
    "IsSelectAllAggregate": ["C03", "C06"], "AsNumber": ["C03", "C07"],
    "ExecOrderBy": ["C05"], "BuildLimit": ["C05"], "BuildOrder": ["C05"], "exec": ["C05", "C08", "C01", "C18"],
    "ExecDistinct": ["C06"], "BuildUnion": ["C06", "C07"],
    "BuildCte": ["C07", "C11", "C10"], "BuildFromAliasedTable": ["C07"], "SubqueryExpr": ["C07", "C11"], "ExistExpr": ["C07", "C11"],
    "Scope": ["C07", "C11"], "BuildFrom": ["C07", "C04"], "BuildJoin": ["C04"], "BuildSelect": ["C07", "C05"], "BuildGroup": ["C03", "C19"],
    "CopyQuery": ["C08"], "shareSingletons": ["C14"], "FunExpr": ["C14", "C19", "C10"], "FuncArgReader": ["C18", "C14"], "callRecovered": ["C14", "C10"],
    "New": ["C17", "C10"], "Exec": ["C02", "C10"], "execAndPostProcess": ["C14", "C10"], "AsError": ["C10"], "Prepare": ["C07"],
    "BuildColumnName": ["C03", "C05"], "BuildLiteral": ["C05"], "addPostProcessors": ["C14", "C13"],
    # heplers.go
    "ValueOf": ["C02"], "AsType": ["C02", "C18"], "AsArray": ["C07", "C01"], "IsImmediateFunction": ["C14"],
    # sort.go
    "Sort": ["C05"], "Compare": ["C05", "C15"],
    # functions.go
    "SumFunc": ["C03"], "AvgFunc": ["C03"], "MinFunc": ["C03"], "MaxFunc": ["C03"], "CountFunc": ["C03"],
    "GetVarFunc": ["C20"], "SetVarFunc": ["C20"], "RaiseWhenFunc": ["C19"], "RaiseFunc": ["C19"],
}
FILE_DEFAULT = {"join.go": ["C04"], "selector.go": ["C09"], "processors.go": ["C17"], "functions.go": ["C18"],
                "compare/compare.go": ["C15"], "sanitizer/sanitizer.go": ["C16"], "sort.go": ["C05"], "heplers.go": ["C02"], "plsql.go": ["C02"]}

OPS = [
    (r"(?<![<>=!])<=(?!=)", "<"), (r"(?<![<>=!-])<(?![<=-])", "<="), (r"(?<![<>=!-])>=(?!=)", ">"), (r"(?<![<>=!-])>(?![>=])", ">="),
    (r"(?<![=!<>:])==(?!=)", "!="), (r"!=(?!=)", "=="), (r"&&", "||"), (r"\|\|", "&&"),
    (r"(?<![+\w\"'])\+(?![+=\"'])", "-"), (r"(?<![-\w\"'<(,=\s])-(?![-=>\"'])", "+"),
    (r"\b0\b", "1"), (r"\b1\b", "0"), (r"\btrue\b", "false"), (r"\bfalse\b", "true"),
    (r"^(\s*)continue\s*$", r"\1"), (r"^(\s*)break\s*$", r"\1"),
    (r"len\((\w+)\)-1", r"len(\1)"), (r"\[1:\]", "[0:]"), (r"!(\w)", r"\1"),
]


def sh(cmd, cwd=None, env=None, timeout=900):
    p = subprocess.run(cmd, cwd=cwd, env=env, stdout=subprocess.PIPE, stderr=subprocess.STDOUT, text=True, timeout=timeout, errors="replace")
    return p.returncode, p.stdout


def funcs_of(src):
    """line number -> enclosing top-level function name (top-level funcs start in column 0)"""
    m, cur = {}, None
    for i, line in enumerate(src.split("\n")):
        g = re.match(r"^func (?:\([^)]*\) )?(\w+)", line)
        if g:
            cur = g.group(1)
        elif re.match(r"^(type|var|const|import)\b", line):
            cur = None
        m[i] = cur
    return m


def candidates(repo):
    out = []
    for rel in FILE_DEFAULT:
        src = open(os.path.join(repo, rel)).read()
        fm = funcs_of(src)
        lines = src.split("\n")
        in_block_comment = False
        for i, line in enumerate(lines):
            s = line.strip()
            if s.startswith("/*"):
                in_block_comment = True
            if in_block_comment:
                if "*/" in s:
                    in_block_comment = False
                continue
            if not s or s.startswith("//") or s.startswith("import") or s.startswith("package") or fm.get(i) is None:
                continue
            if re.search(r"Sprintf|Errorf|Extend\(|^\s*\"", line):
                continue  # message texts
            code = line.split("//")[0]
            for k, (pat, rep) in enumerate(OPS):
                for mt in re.finditer(pat, code):
                    new = code[:mt.start()] + re.sub(pat, rep, code[mt.start():], count=1)
                    if new != code:
                        out.append({"file": rel, "line": i + 1, "func": fm[i], "op": k, "old": line.strip(), "new": new.strip(), "col": mt.start()})
    return out


def main():
    ap = argparse.ArgumentParser()
    ap.add_argument("--lane", type=int, default=0)
    ap.add_argument("--lanes", type=int, default=1)
    ap.add_argument("--max", type=int, default=200)
    ap.add_argument("--seed", type=int, default=7)
    ap.add_argument("--files", default="")
    a = ap.parse_args()
    work = "/tmp/msweep-%d" % a.lane
    shutil.rmtree(work, ignore_errors=True)
    os.makedirs(work)
    repo = os.path.join(work, "repo")
    sh(["git", "-C", "/repo", "worktree", "prune"])
    rc, out = sh(["git", "-C", "/repo", "worktree", "add", "--detach", repo, "HEAD"])
    if rc != 0:
        print(out); sys.exit(2)
    harness = os.path.join(work, "harness")
    shutil.copytree(os.path.join(ROOT, "harness"), harness)
    gm = open(os.path.join(harness, "go.mod")).read().replace("=> /repo", "=> " + repo)
    open(os.path.join(harness, "go.mod"), "w").write(gm)
    shutil.copyfile(os.path.join(repo, "go.sum"), os.path.join(harness, "go.sum"))
    cands = candidates(repo)
    if a.files:
        cands = [c for c in cands if c["file"] in a.files.split(",")]
    rnd = random.Random(a.seed)
    rnd.shuffle(cands)
    mine = [c for i, c in enumerate(cands) if i % a.lanes == a.lane][:a.max]
    os.makedirs(os.path.join(ROOT, "notes", "mutation_sweep"), exist_ok=True)
    logp = os.path.join(ROOT, "notes", "mutation_sweep", "lane%d.jsonl" % a.lane)
    env = dict(GOENV, VERIF_HARNESS_DIR=harness, VERIF_REPO=repo, VERIF_NO_EVIDENCE="1")
    with open(logp, "a") as log:
        for c in mine:
            path = os.path.join(repo, c["file"])
            orig = open(path).read()
            lines = orig.split("\n")
            code = lines[c["line"] - 1]
            pat, rep = OPS[c["op"]]
            head, tail = code[:c["col"]], code[c["col"]:]
            lines[c["line"] - 1] = head + re.sub(pat, rep, tail, count=1)
            open(path, "w").write("\n".join(lines))
            rec = dict(c)
            try:
                rc, out = sh(["go", "build", "./..."], cwd=repo, env=GOENV, timeout=300)
                if rc != 0:
                    rec["status"] = "does-not-compile"
                else:
                    rc, out = sh(["go", "test", "-vet=off", "-count=1", "./..."], cwd=repo, env=GOENV, timeout=600)
                    if rc != 0:
                        rec["status"] = "killed-by-existing-tests"
                    else:
                        props = FUNC_PROPS.get(c["func"]) or FILE_DEFAULT[c["file"]]
                        rec["props"] = props
                        rec["status"] = "survived"
                        for p in props:
                            t0 = time.time()
                            rc, out = sh([os.path.join(ROOT, "bin", "check"), p], cwd=ROOT, env=env, timeout=1500)
                            if rc != 0 and "VIOLATION" in out:
                                rec["status"] = "caught"
                                rec["caught_by"] = p
                                rec["nofailing"] = "no-failing-input-found" in out
                                break
            except subprocess.TimeoutExpired:
                rec["status"] = "timeout"
            finally:
                open(path, "w").write(orig)
            log.write(json.dumps(rec) + "\n")
            log.flush()
    sh(["git", "-C", "/repo", "worktree", "remove", "--force", repo])
    shutil.rmtree(work, ignore_errors=True)


if __name__ == "__main__":
    main()
