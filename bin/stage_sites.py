"""Structural obligations regenerated from /repo's current source by the translator
(vharness aux sites): C11 mutation sites, C10 crash sites."""
import os, re, json


def _gen(ctx):
    d = os.path.join(ctx["rundir"], "sites")
    if os.path.exists(os.path.join(d, "Sites.vo")):
        return d, ""
    rc, out = ctx["run"]([ctx["exe"], "aux", "sites", "-out", d], cwd=ctx["rundir"], env=ctx["goenv"], timeout=300)
    if rc != 0:
        return None, "translator failed: " + out[-400:]
    rc, out = ctx["run"](["coqc", "-Q", ctx["coq"], "GenqlV", "Sites.v"], cwd=d, timeout=600)
    if rc != 0:
        return None, "Sites.v does not compile: " + out[-400:]
    return d, ""


def _prove(ctx, d, name, statement, offenders):
    """Compile a one-theorem file; on failure evaluate the offenders for the report."""
    v = os.path.join(d, "Obl_%s.v" % name)
    open(v, "w").write(
        "From Coq Require Import List String Bool.\nFrom GenqlV Require Import Gen.SiteRules.\nRequire Import Sites.\n"
        "Theorem obl_%s : %s = true.\nProof. vm_compute. reflexivity. Qed.\n" % (name, statement))
    rc, out = ctx["run"](["coqc", "-Q", ctx["coq"], "GenqlV", "-Q", ".", "", os.path.basename(v)], cwd=d, timeout=600)
    if rc == 0:
        return True, ""
    w = os.path.join(d, "Off_%s.v" % name)
    open(w, "w").write(
        "From Coq Require Import List String Bool.\nFrom GenqlV Require Import Gen.SiteRules.\nRequire Import Sites.\n"
        "Eval vm_compute in (%s).\n" % offenders)
    rc2, out2 = ctx["run"](["coqc", "-Q", ctx["coq"], "GenqlV", "-Q", ".", "", os.path.basename(w)], cwd=d, timeout=600)
    txt = " ".join(out2.split())
    strs = re.findall(r'"((?:[^"]|"")*)"%string', txt)
    return False, "offending sites: " + " | ".join(strs[:24])[:900]


def structural_c11(ctx):
    d, err = _gen(ctx)
    if d is None:
        return [("mutation-sites", False, err)]
    ok, det = _prove(ctx, d, "mut", "mut_obligation mut_sites", "mut_offenders mut_sites")
    n = json.load(open(os.path.join(d, "sites.json")))
    return [("mutation-sites(%d regenerated from source): every write through a reference targets a fresh local or an audited object" % n["mut_sites"], ok, det)]


def structural_c10(ctx):
    d, err = _gen(ctx)
    if d is None:
        return [("crash-sites", False, err)]
    n = json.load(open(os.path.join(d, "sites.json")))
    out = []
    for name, stmt, off, what in [
        ("entry", "entry_obligation entry_sites", "entry_sites", "New, exec, execAndPostProcess and Sort recover every panic with a handler that cannot panic"),
        ("go", "go_obligation go_sites", "go_offenders go_sites", "every goroutine (%d) recovers its own panics or only waits" % n["go_sites"]),
        ("panic", "panic_obligation panic_sites", "panic_sites", "every explicit panic (%d) is covered by a recovering frame of its goroutine" % n["panic_sites"]),
        ("recursion", "recursion_obligation recursive_funcs", "recursion_offenders recursive_funcs", "every function on a call-graph cycle is audited with a decreasing measure"),
        ("loops", "loop_obligation plain_loops", "loop_offenders plain_loops", "every non-range loop (%d) is in an audited function" % n["plain_loops"]),
    ]:
        ok, det = _prove(ctx, d, name, stmt, off)
        out.append(("crash-sites/%s: %s" % (name, what), ok, det))
    return out


def install(CONFIG, EXTRA_TB, ASSUME):
    CONFIG.setdefault("C11", {})["structural"] = structural_c11
    CONFIG.setdefault("C10", {})["structural"] = structural_c10
    tb = "translator harness/sites.go (go/ast, syntactic: provenance of the root variable of every map/slice write, recover/defer shape of entry points and goroutines, call-graph cycles by function name) and the audited lists with justifications in coq/Gen/SiteRules.v; interprocedural flow (a callee mutating its parameter) is covered only by the audit notes and by the dynamic deep comparison"
    EXTRA_TB.setdefault("C11", []).append(tb)
    EXTRA_TB.setdefault("C10", []).append(tb)
