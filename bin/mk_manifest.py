#!/usr/bin/env python3
"""Regenerates /verif/MANIFEST.json from the table below (keeps it valid at all times)."""
import json, os
ROOT = os.path.dirname(os.path.dirname(os.path.abspath(__file__)))

TECH = "machine-checked proof in Coq (Gallina model + theorems, Print Assumptions) + differential correspondence model vs. real code (vm_compute)"

# pid -> (claim text, trusted-base note, technique override or None)
CLAIMED = {
 "C15": ("Coq theorems (all values, all Go numeric kinds, strings) that the model of compare.Compare returns only -1/0/1, agrees with the exact rational order, is reflexive, antisymmetric and transitive within a kind; model tied to the code by an exhaustive sweep of all ordered pairs of a finite boundary domain evaluated on the real code and under vm_compute.",
         "Trusted: Coq kernel/VM, hand-written model of compare.go, harness; exactness of Go's int->float64 conversion on the claimed range; no axioms (Print Assumptions: closed).", None),
 "C09": ("Coq theorems for ARBITRARY byte strings as selectors and arbitrary JSON-like documents: the model of selector.go never panics (every Go index/slice/assertion is a checked primitive), parse(print a) = a on the full documented grammar, model = README denotation, wrong shape / out of range => error; model tied to the code by three generated streams (grammar walks, fault injection, raw bytes) comparing outcome, value, ParseSelector tokens and document purity.",
         "Trusted: Coq kernel/VM, hand transcription of the three regexps and of strings/strconv helpers, fmt/ParseFloat oracles (exact on a class, OutOfModel elsewhere), harness. Thunk data and user-registered top-level functions are outside the model. Print Assumptions: only primitive float/int63 declarations.", None),
 "C17": ("Coq theorems over ARBITRARY byte strings and lexical documents of any length/nesting: DoubleQuotesToBackTick turns exactly the double-quoted identifiers into backtick identifiers and copies every byte of string literals / backtick identifiers; FixIdiomaticArray is fully characterised ([ -> ARRAY( , ] -> ) outside quotes iff balanced, else error - never a panic); the two rewrites commute; Wrapped = {root: input}; for ANY parser/engine the PG+idiomatic spelling under the options runs the same text as the canonical spelling. Tie: rewritten text vs. model and spec on exhaustive short strings, random documents and bytes, plus metamorphic Exec comparison on the real engine for all 8 option sets.",
         "Trusted: Coq kernel/VM, hand-written scanner models of processors.go, the lexical-document spec (Spec/LexDoc.v), harness. The parser/engine is an arbitrary function in C17_meaning / C17_wrapped. 14 theorems closed under the global context, 2 list only PrimFloat.float.", None),
 "C01": ("Coq theorems for all tables and all predicates of any depth over the stated grammar: on in-scope rows the evaluator returns exactly the two-valued SQL meaning (pred_sem), the row loop is literally `filter`, NOT IN = complement of IN (lists and subqueries), BETWEEN = inclusive range, p and NOT p partition the table, LIKE = classical wildcard matching where only % and _ are special; lifted to run_select. Tie: ~900 (quick) generated table x predicate cases per run through the real engine and the model, exact sequence of surviving rows.",
         "Trusted: Coq kernel/VM, the hand-written engine model (Model/Eval.v, Exec.v, Like.v), sqlparser grammar (oracle), regexp/ToLower semantics as stated in Model/Like.v, harness. Print Assumptions: only primitive float/int63 declarations.", None),
 "C05": ("Coq theorems: for every slice capacity >= length and every (limit, offset) the window is exactly firstn/skipn of the sorted sequence - never a panic, an error or padding (pinned arithmetic refuted by witness); the ORDER BY comparator is a strict weak order on one-kind key columns incl. NULL handling in both directions; any output satisfying the sort.Slice contract (sorted permutation) respects the lexicographic key order with per-key direction and puts NULL keys last; the executable sort meets the contract; lifted to run_select. Tie: exhaustive (limit, offset) sweep in {none,0..8}^2 x both spellings x spare capacity, plus random tables/keys/windows through the real engine and the model (key-tuple sequence + row multiset).",
         "Trusted: Coq kernel/VM, engine model, sort.Slice as an oracle with the stated contract, NumLaws premise on doubles (no NaN), harness. Print Assumptions: only primitive float/int63 declarations.", None),
 "C03": ("Coq theorems for all tables / grouping columns / select lists: the engine's ordered linear-scan grouping equals the textbook group_by (every row in exactly one group, same group iff equal on every grouping column, members in source order, groups in first-appearance order with no iteration-order parameter, conservation law), every aggregate is the textbook fold over exactly its group's members (whole-table path: over the rows that passed WHERE; COUNT 0 / NULLs on the empty set), calls are independent, HAVING = filter over groups, WHERE-then-group composition on run_select. Tie: generated tables x GROUP BY / HAVING / multi-aggregate select lists through the real engine and the model, every query repeated 6x (24x thorough) to detect order instability.",
         "Trusted: Coq kernel/VM, engine model, harness. Float equality/order laws are premises proved from the stdlib's FloatAxioms (eqb_spec, ltb_spec - listed by Print Assumptions for C03_float_laws_hold); all other theorems list only primitive float/int63 declarations.", None),
 "C02": ("Coq theorems for all rows, select lists and expression trees of any depth: evaluating an expression and resolving its wrapper equals a wrapper-free denotation (IEEE primitives, int64 helpers for DIV & | ^ << >> ~, CASE first-true-wins, missing key = NULL, NULL operand of binary arithmetic = NULL); one output object per row equal to the specification's projection with exactly the select list's names as keys (later duplicates win, * merges); output i depends on row i only; no engine-internal key unless the source has it; lifted to run_select. Tie: generated tables x select lists (all 11 binary operators, unary, CASE, nested paths, literals, shifts -1..70) through the real engine and the model, exact objects with numbers as bit patterns.",
         "Trusted: Coq kernel/VM, engine model, Go's float64<->int64 conversion as modelled in Model/Num.v (out-of-range = OutOfModel), harness. Print Assumptions: only primitive float/int63 declarations.", None),
 "C11": ("Coq theorem over all traces and all prefixes (= every point at which evaluation can stop with an error): if every write targets an object the execution allocated itself, every object of the caller's document keeps its content; the repaired marker protocol (scope copy) is fresh, the pinned one is refuted. Tied to the source on every run by (a) the regenerated mutation-site table (go/ast translator, 96 sites today) checked in Coq against the fresh-or-audited criterion and (b) cycle-safe deep comparison of the input after every generated query of every shape, with and without Wrapped, incl. queries failing part-way.",
         "Trusted: Coq kernel/VM; the translator's syntactic provenance rule and the audited list (Gen/SiteRules.v); Go's aliasing semantics; harness deep comparison. Theorems closed under the global context.",
         "machine-checked proof in Coq (trace theorem) + structural obligation regenerated from source and checked by vm_compute + deep-comparison correspondence"),
 "C06": ("Coq theorems for all row lists: DISTINCT with an exact fingerprint = keep-first-occurrence (no duplicates, same set, exactly once, subsequence, first-occurrence position, idempotent), lifted to run_select; UNION ALL = concatenation, UNION = nodup_first of it, chains of any length k >= 2 with any mix of flags through exec, trailing LIMIT/OFFSET = window of the combined list; the pinned %v fingerprint is refuted by a witness pair. Tie: tables with planted duplicates that differ only in kind or %v text, UNION chains of 2-4 branches with random ALL flags and LIMIT, exact sequences through the real engine and the model.",
         "Trusted: Coq kernel/VM, engine model, injectivity of sha256 over the Go-syntax text, harness. One theorem (C06_feq_laws_binary64) lists the stdlib axiom FloatAxioms.eqb_spec; the others only primitive float/int63 declarations.", None),
 "C08": ("Coq theorems for documents of any nesting depth (ragged, empty inner arrays): the copied query agrees with the original on every clause exec consults (pinned CopyQuery refuted), the result of a simple query over an array of arrays has the same nesting and each inner result equals the query run directly on that inner array, and for plain queries mix=> returns the concatenation of the inner results. Tie: generated nested documents (depth 2-3) x filter/projection/aggregate queries, a quarter through mix=>, exact nested results through the real engine and the model.",
         "Trusted: Coq kernel/VM, engine model, harness. Print Assumptions: only primitive float/int63 declarations.", None),
 "C16": ("Coq theorems for ARBITRARY byte strings: QuoteString round-trips through the consumer's (sqlparser, MySQL dialect) string scanner - one token, exactly the argument, scanner stops at its end (pinned quoting refuted with the injection witness); the sanitizer's lexer and the consumer's lexer agree on where $n is a placeholder (simulation, list equality of offsets: literals, quoted identifiers and comments are left alone); number / bool / NULL arguments are single literal tokens that cannot merge into comment syntax; $0, missing, unused, unsupported arguments are errors, never panics. C16_shape is partial (per literal). Tie: templates x arguments over a hostile alphabet through the real SanitizeSQL, the real tokenizer, genql.Parse (AST shape), echo and WHERE-filter through Exec; the scanner model itself is validated against sqlparser on every run.",
         "Trusted: Coq kernel/VM, hand transcription of sqlparser's scanner and of sanitizer.go, sqlparser grammar + genql evaluator as oracles, harness. All 20 theorems closed under the global context.", None),
 "C07": ("Coq theorems at every fuel: a query reading a CTE (directly or through a path) equals the outer query over the materialised inner result; chains of any length in any declaration order; multiple reads see one value; derived tables = staged; a row-scoped subquery is the subquery run standalone on the scoped row; IN-subquery both polarities; EXISTS = element-wise existential incl. outer columns; self/mutually recursive CTEs are errors (never divergence); fuel monotonicity. Tie: two- and three-stage pipelines through the real engine and the model, and the real code's composed result compared with its own staged result.",
         "Trusted: Coq kernel/VM, engine model, harness. Print Assumptions: only primitive float/int63 declarations. One _partial (EXISTS with a projecting select list: implication only).", None),
 "C20": ("Coq theorems for all tables, select lists and query sequences: running a query over the variable store equals running its register history (rows in source order x items left to right, arguments before the call, WHERE first), GETVAR sees the last SETVAR or NULL, SETVAR adds no column, the final store holds the last write per key, sequences of queries sharing a map compose. Tie: generated histories over 1-3 keys x 1-5 select positions x 0-6 rows, counters, sequences of 1-4 queries sharing one map, rows and the caller's map after each query (also after failing queries) through the real engine and the model.",
         "Trusted: Coq kernel/VM, Model/Vars.v over the engine model, harness; RWMutex not modelled. Print Assumptions: only primitive float/int63 declarations.", None),
 "C04": ("Coq theorems for all table pairs, ON clauses and join types: the nested-loop and the hash path both return a permutation of the textbook join (pairs satisfying ON, plus partner-less outer rows once with NULL), so every strategy agrees with every other; RIGHT = mirrored LEFT; orientation / conjunct order of ON does not matter; the length-prefixed key text is injective (pinned '%v-' refuted); Go map iteration order does not matter; and for EVERY goroutine schedule of the PARALLEL drivers (non-atomic append under a mutex, error path included) the result is a permutation of the sequential result, with mutual exclusion, no deadlock, termination. Tie: table pairs x ON x 3 types x 6 strategies (14 renderings) through the real engine, compared as multisets with the code-shaped model AND the textbook specification.",
         "Trusted: Coq kernel/VM, engine + join model, Go mutex/WaitGroup semantics (oracle), harness. PARALLEL theorems closed under the global context; the float-order premises are discharged from the stdlib's FloatAxioms (eqb_spec, ltb_spec).", None),
}

NOT_YET = "check not built yet in this round (work in progress; planned as Coq proof + correspondence per DESIGN.md)"


def main():
    props = [json.loads(l) for l in open(os.path.join(ROOT, "properties.jsonl"))]
    ids = [p["id"] for p in props]
    served = [i for i in ids if i in CLAIMED]
    man = {"version": 1, "setup_cmd": "./bin/setup",
           "hooks": {"guard": "verif",
                     "enable": "go build -tags verif (the harness module /verif/harness replaces github.com/vedadiyan/genql with /repo, so every check compiles /repo's working tree)",
                     "baseline_off_cmd": "cd /repo && go test -vet=off -count=1 -json ./...",
                     "source_commits": HOOK_COMMITS, "add_only": True},
           "engines": [
               {"name": "coq-model", "path": "coq", "serves_properties": served,
                "kind_free_text": "Coq 8.16.1 development: Gallina models (Model/), specifications (Spec/), proofs (Proofs/), claims (Properties/Cxx.v)"},
               {"name": "vharness", "path": "harness", "serves_properties": served,
                "kind_free_text": "Go correspondence harness + go/ast translator, rebuilt against /repo's working tree on every run"},
               {"name": "check", "path": "bin/check", "serves_properties": served,
                "kind_free_text": "orchestrator: proofs, regenerated obligations, correspondence, search, known findings, evidence"}],
           "checks": [], "notes": "see DESIGN.md; known findings in known_findings.json", "not_applicable": []}
    for pid in ids:
        if pid in CLAIMED:
            text, note, tech = CLAIMED[pid]
            man["checks"].append({
                "property_id": pid, "quick_cmd": "./bin/check %s --tier quick" % pid,
                "thorough_cmd": "./bin/check %s --tier thorough" % pid,
                "evidence_file": "evidence/%s.json" % pid,
                "replay_cmd_template": "./bin/check %s --replay {path}" % pid, "engine": "check",
                "level_claimed": {"category": "proof", "text": text, "design_ref": "DESIGN.md section 4, " + pid},
                "level_note": note, "technique": tech or TECH})
        else:
            man["not_applicable"].append({"property_id": pid, "reason": NOT_YET})
    json.dump(man, open(os.path.join(ROOT, "MANIFEST.json"), "w"), indent=1)


HOOK_COMMITS = []

if __name__ == "__main__":
    main()
