"""C18 structural obligation: the registration table C18_arity / C18_never_panics quantify over
(Model/Funcs.v `registry`: name, immediate?) equals the table regenerated from functions.go init()."""
import os


def structural(ctx):
    out = os.path.join(ctx["rundir"], "c18aux")
    os.makedirs(out, exist_ok=True)
    rc, txt = ctx["run"]([ctx["exe"], "aux", "C14registry", "-out", out], cwd=ctx["rundir"], env=ctx["goenv"], timeout=300)
    src = os.path.join(out, "C14Registry.v")
    if rc != 0 or not os.path.exists(src):
        return [("registry", False, "translator failed: " + txt[-300:].replace("\n", " "))]
    body = open(src).read()
    i = body.index("Definition gen_registry")
    j = body.index("].", i) + 2
    v = os.path.join(out, "C18Registry.v")
    open(v, "w").write(
        "From Coq Require Import List String.\nImport ListNotations.\nLocal Open Scope string_scope.\n"
        "From GenqlV Require Model.Funcs.\n\n" + body[i:j] +
        "\n\nTheorem registry_agrees : gen_registry = Model.Funcs.registry.\nProof. vm_compute. reflexivity. Qed.\n")
    rc, txt = ctx["run"](["coqc", "-Q", ctx["coq"], "GenqlV", "C18Registry.v"], cwd=out, timeout=600)
    if rc == 0:
        return [("registry: functions.go init() registers exactly the functions of Model/Funcs.v registry (names and immediate flags)", True, "")]
    return [("registry", False, "functions registered by init() differ from Model/Funcs.v registry: " + txt[-300:].replace("\n", " "))]


def install(CONFIG, EXTRA_TB, ASSUME):
    CONFIG.setdefault("C18", {})["structural"] = structural
