"""C18 structural obligation: the registration table C18_arity / C18_never_panics quantify over
(Model/Funcs.v `registry`: name, immediate?) equals the table regenerated from functions.go init()."""
import os


def structural(ctx):
    out = os.path.join(ctx["rundir"], "c18aux")
    os.makedirs(out, exist_ok=True)
    rc, txt = ctx["run"]([ctx["exe"], "aux", "C14registry", "-out", out], cwd=ctx["rundir"], env=ctx["goenv"], timeout=300)
    src = os.path.join(out, "C14Registry.v")
    if rc != 0 or not os.path.exists(src):
        return [("registry", False, "translator failed: " + txt[-300:].replace("\n", " "))]
    body = open(src).read()
    i = body.index("Definition gen_registry")
    j = body.index("].", i) + 2
    v = os.path.join(out, "C18Registry.v")
    open(v, "w").write(
        "From Coq Require Import List String.\nImport ListNotations.\nLocal Open Scope string_scope.\n"
        "From GenqlV Require Model.Funcs.\n\n" + body[i:j] +
        "\n\nTheorem registry_agrees : gen_registry = Model.Funcs.registry.\nProof. vm_compute. reflexivity. Qed.\n")
    rc, txt = ctx["run"](["coqc", "-Q", ctx["coq"], "GenqlV", "C18Registry.v"], cwd=out, timeout=600)
    if rc == 0:
        return [("registry: functions.go init() registers exactly the functions of Model/Funcs.v registry (names and immediate flags)", True, "")]
    return [("registry", False, "functions registered by init() differ from Model/Funcs.v registry: " + txt[-300:].replace("\n", " "))]


def hash_history(ctx):
    """HASH digests from two fresh processes — one that ran ENCODE/DECODE first, one that did not — must be identical:
    the model takes the serialisation behind HASH as a function of the value alone."""
    import json, os
    res = {"name": "hash-history-independence", "ok": False, "violations": [], "coverage": {}}
    d = os.path.join(ctx["rundir"], "c18hash")
    got = {}
    for order in ("hash-first", "encode-first"):
        rc, out = ctx["run"]([ctx["exe"], "aux", "c18hash", "-tier", order, "-out", d], cwd=ctx["rundir"], env=ctx["goenv"], timeout=300)
        p = os.path.join(d, "c18hash-%s.json" % order)
        if rc != 0 or not os.path.exists(p):
            res["detail"] = "driver failed: " + out[-300:]
            res["broken"] = "stage:hash-history-independence did not complete: " + out[-200:].replace("\n", " ")
            return res
        got[order] = json.load(open(p))
    diff = sorted(k for k in got["hash-first"] if got["hash-first"][k] != got["encode-first"].get(k))
    res["coverage"] = {"cases": len(got["hash-first"]), "rule": "4 algorithms x 5 value kinds + a literal, HASH-first process vs ENCODE-first process"}
    res["ok"] = not diff
    res["detail"] = "%d of %d digests depend on whether ENCODE ran earlier in the process" % (len(diff), len(got["hash-first"]))
    if diff:
        p = os.path.join(ctx["root"], "replays", "C18-%s-%d-hash-history.json" % (ctx["tier"], ctx["seed"]))
        json.dump({"property": "C18", "kind": "HASH is not a function of its argument: the digest depends on what ran earlier in the process",
                   "differing": {k: {"hash_first": got["hash-first"][k], "encode_first": got["encode-first"].get(k)} for k in diff[:6]},
                   "replay": "vharness aux c18hash -tier hash-first|encode-first -out <dir> ; compare the two files"}, open(p, "w"), indent=1)
        res["violations"].append((p, ""))
    return res


def install(CONFIG, EXTRA_TB, ASSUME):
    CONFIG.setdefault("C18", {}).setdefault("stages", []).append(hash_history)
    CONFIG.setdefault("C18", {})["structural"] = structural
