"""C05 page equation, OBSERVATIONAL (harness/r4_c05page.go): the engine checks run the model with `no_call`, so select
lists that call functions are outside the model. What C05 says about LIMIT / OFFSET does not depend on the select list:
`Q LIMIT n OFFSET m` (either spelling) is the slice m .. m+n-1 of what Q returns without LIMIT. This stage checks that
equation on the real code for select lists whose items depend on which rows were projected before (ONCE.-qualified
built-ins over a row-dependent argument, a registered row-numbering function, plain built-in calls), with and without
WHERE / ORDER BY / DISTINCT, over a sweep of windows. A failure is a C05 violation with the query and document."""
import json, os


def page(ctx):
    res = {"name": "page-equals-slice-of-unlimited-result", "ok": False, "violations": [], "coverage": {}}
    d = os.path.join(ctx["rundir"], "c05page")
    rc, out = ctx["run"]([ctx["exe"], "aux", "c05page", "-tier", ctx["tier"], "-seed", str(ctx["seed"]), "-out", d],
                         cwd=ctx["rundir"], env=ctx["goenv"], timeout=600)
    p = os.path.join(d, "c05page.json")
    if rc != 0 or not os.path.exists(p):
        res["detail"] = "driver failed: " + out[-300:]
        res["broken"] = "stage:page-equals-slice-of-unlimited-result did not complete: " + out[-200:].replace("\n", " ")
        return res
    m = json.load(open(p))
    fails = m.get("failures") or []
    res["coverage"] = {"cases": m.get("checks", 0), "base_queries": m.get("base_queries", 0),
                       "skipped_failing_base": m.get("skipped_failing_base", 0), "distribution": m.get("distribution", {}),
                       "rule": "random tables (0-8 rows) x select lists with ONCE.TO_UPPER/TO_LOWER/CONCAT(col), a stateful row-numbering function, plain calls x optional WHERE / total ORDER BY / DISTINCT x 10 windows each (0, inside, straddling, beyond the end; both spellings): paged result == slice of the unlimited result (observed on the real code only, no model)"}
    res["ok"] = not fails
    res["detail"] = "%d of %d paged queries differ from the slice of the unlimited result" % (len(fails), m.get("checks", 0))
    for i, f in enumerate(fails[:3]):
        rp = os.path.join(ctx["root"], "replays", "C05-%s-%d-page-%d.json" % (ctx["tier"], ctx["seed"], i))
        json.dump({"property": "C05", "kind": "LIMIT/OFFSET page is not the slice m..m+n-1 of the same query without LIMIT (observed on the real code)",
                   "failure": f, "replay": "vharness aux c05page -tier %s -seed %d -out <dir>" % (ctx["tier"], ctx["seed"])}, open(rp, "w"), indent=1)
        res["violations"].append((rp, ""))
    return res


def install(CONFIG, EXTRA_TB, ASSUME):
    CONFIG.setdefault("C05", {}).setdefault("stages", []).append(page)
    EXTRA_TB.setdefault("C05", []).append("the page-equals-slice stage is observational: it compares two runs of the real engine (with and without LIMIT/OFFSET) for select lists with function calls, which the engine model does not evaluate (no_call)")
