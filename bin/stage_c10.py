"""C10 dynamic stage: crash-isolated execution of generated / mutated / raw queries x option sets, followed by a
race-detector pass over the cases that start goroutines (unordered map accesses = fatal error on some schedule)."""
import json, os


def known_for(ctx, text, sql=""):
    """A crash or a map race is a known finding iff a listed (status=known) C10 finding names call sites
    (signature_frames) that all occur in the runtime's report, and the query has the listed feature (sql_has)."""
    try:
        findings = json.load(open(os.path.join(ctx["root"], "known_findings.json"))).get("findings", [])
    except Exception:
        findings = []
    for k in findings:
        if k.get("property") != "C10" or k.get("status") != "known" or not k.get("signature_frames"):
            continue
        if all(f in text for f in k["signature_frames"]) and all(w.lower() in sql.lower() for w in k.get("sql_has", [])):
            return k
    return None


def crash_stage(ctx):
    d = os.path.join(ctx["rundir"], "crash")
    os.makedirs(d, exist_ok=True)
    res = {"name": "crash-isolation", "ok": False, "violations": [], "known": [], "coverage": {}}
    env = dict(ctx["goenv"])
    rexe, rout = ctx["build_harness"](race=True)
    if rexe is None:
        res["detail"] = "race build of the harness failed: " + rout[-400:]
        res["broken"] = "stage:crash-isolation race build failed: " + rout[-200:].replace("\n", " ")
        return res
    env["VERIF_RACE_EXE"] = rexe
    rc, out = ctx["run"]([ctx["exe"], "aux", "crash", "-tier", ctx["tier"], "-seed", str(ctx["seed"]), "-out", d],
                         cwd=ctx["rundir"], env=env, timeout=3000)
    path = os.path.join(d, "crash.json")
    if rc != 0 or not os.path.exists(path):
        res["detail"] = "crash driver failed: " + out[-400:]
        res["broken"] = "stage:crash-isolation driver did not complete: " + out[-200:].replace("\n", " ")
        return res
    m = json.load(open(path))
    race = m.get("race") or {}
    res["coverage"] = {"cases": m["cases"], "outcomes": m["outcomes"], "streams": m["streams"], "samples": m["samples"],
                       "race_pass": {"cases": race.get("cases", 0), "completed": race.get("completed", 0),
                                     "map_races": len(race.get("map_races") or []), "other_races": race.get("other_races", 0),
                                     "rule": "cases with PARALLEL / ASYNC. / SPIN. plus the reader stream (a function that reads its arguments, under every qualifier and position) run once in a child built with -race; a report in which an access is a runtime map operation is a violation (the runtime turns overlapping accesses of that kind into a fatal error), other reports are only counted"},
                       "rule": "every case runs New+Exec in a child process (30 s per batch of 250, the first unfinished case of a dead or hung child is the culprit); classes result | error are fine, panic-escaped | process-died | timeout are violations"}
    fails = []
    seen_known = {}
    for f in m.get("failures") or []:
        k = known_for(ctx, f.get("detail") or "", f["case"].get("sql", "")) if f["kind"] == "process-died" else None
        if k is not None:
            seen_known[k["id"]] = k
        else:
            fails.append(f)
    for f in fails[:5]:
        p = os.path.join(ctx["root"], "replays", "C10-%s-%d-crash-%d.json" % (ctx["tier"], ctx["seed"], f["case"]["id"]))
        json.dump({"property": "C10", "kind": f["kind"], "case": f["case"], "detail": (f.get("detail") or "")[:3000],
                   "replay": "vharness aux crashchild -in <file with [case]> (see harness/crash.go)"}, open(p, "w"), indent=1)
        res["violations"].append((p, ""))
    nrace = 0
    sigs = set()
    for r in race.get("map_races") or []:
        k = known_for(ctx, "\n".join(r.get("frames") or []) + "\n" + r["report"], r["case"].get("sql", ""))
        if k is not None:
            seen_known[k["id"]] = k
            continue
        nrace += 1
        sig = tuple(r.get("sig") or [])
        if sig in sigs or len(res["violations"]) >= 5:
            continue
        sigs.add(sig)
        p = os.path.join(ctx["root"], "replays", "C10-%s-%d-maprace-%d.json" % (ctx["tier"], ctx["seed"], r["case"].get("id", 0)))
        json.dump({"property": "C10", "kind": "map-race", "case": r["case"], "accesses": r.get("sig"), "frames": r.get("frames"), "detail": r["report"],
                   "verdict": "two goroutines of the engine access one map without ordering and one of them writes it: on the schedules where the accesses overlap the runtime ends the process with 'fatal error: concurrent map ...'",
                   "replay": "go build -race -tags verif (harness) ; GORACE=halt_on_error=1 vharness-race aux crashchild -in <file with [case]>"},
                  open(p, "w"), indent=1)
        if (p, "") not in res["violations"]:
            res["violations"].append((p, ""))
    for k in seen_known.values():
        res["known"].append("KNOWN-FINDING: property=C10 %s" % k["what"])
    if race.get("error") or not race.get("ran"):
        res["broken"] = "stage:crash-isolation race pass did not complete: " + str(race.get("error") or "not run")[:300].replace("\n", " ")
    res["ok"] = not fails and not nrace and not res.get("broken")
    res["detail"] = "%d of %d cases crashed, hung or let a panic escape; race pass: %d cases, %d unlisted map races, %d listed as known findings, %d other race reports" % (
        len(fails), m["cases"], race.get("cases", 0), nrace, len(seen_known), race.get("other_races", 0))
    return res


def install(CONFIG, EXTRA_TB, ASSUME):
    c = CONFIG.setdefault("C10", {})
    c["stages"] = [crash_stage]
    c["harness"] = False
    EXTRA_TB.setdefault("C10", []).append(
        "Go runtime facts outside any executable model (goroutine death kills the process, recover semantics, stack/memory limits, scheduling) are observed by the crash-isolation stage, not proved; sqlparser is an oracle (any statement, a syntax error, or an unsupported construct that panics during construction)")
    EXTRA_TB.setdefault("C10", []).append(
        "the Go race detector (go build -race) in the race pass of the crash-isolation stage: it sees the unordered accesses of the executions it is shown, not of all executions")
    ASSUME.setdefault("C10", []).extend([
        "partial: real stack depth, memory exhaustion on hostile sizes and OS scheduling are observed in child processes with a 30 s batch timeout, not proved",
        "the structural obligations are syntactic (go/ast); a WaitGroup-only goroutine body is assumed not to panic (each Done is preceded by its Add)"])
