"""C10 dynamic stage: crash-isolated execution of generated / mutated / raw queries x option sets."""
import json, os


def crash_stage(ctx):
    d = os.path.join(ctx["rundir"], "crash")
    os.makedirs(d, exist_ok=True)
    rc, out = ctx["run"]([ctx["exe"], "aux", "crash", "-tier", ctx["tier"], "-seed", str(ctx["seed"]), "-out", d],
                         cwd=ctx["rundir"], env=ctx["goenv"], timeout=3000)
    res = {"name": "crash-isolation", "ok": False, "violations": [], "coverage": {}}
    path = os.path.join(d, "crash.json")
    if rc != 0 or not os.path.exists(path):
        res["detail"] = "crash driver failed: " + out[-400:]
        res["broken"] = "stage:crash-isolation driver did not complete: " + out[-200:].replace("\n", " ")
        return res
    m = json.load(open(path))
    res["coverage"] = {"cases": m["cases"], "outcomes": m["outcomes"], "streams": m["streams"], "samples": m["samples"],
                       "rule": "every case runs New+Exec in a child process (30 s per batch of 250, the first unfinished case of a dead or hung child is the culprit); classes result | error are fine, panic-escaped | process-died | timeout are violations"}
    fails = m.get("failures") or []
    res["ok"] = not fails
    res["detail"] = "%d of %d cases crashed, hung or let a panic escape" % (len(fails), m["cases"])
    for f in fails[:5]:
        p = os.path.join(ctx["root"], "replays", "C10-%s-%d-crash-%d.json" % (ctx["tier"], ctx["seed"], f["case"]["id"]))
        json.dump({"property": "C10", "kind": f["kind"], "case": f["case"], "detail": f["detail"],
                   "replay": "vharness aux crashchild -in <file with [case]> (see harness/crash.go)"}, open(p, "w"), indent=1)
        res["violations"].append((p, ""))
    return res


def install(CONFIG, EXTRA_TB, ASSUME):
    c = CONFIG.setdefault("C10", {})
    c["stages"] = [crash_stage]
    c["harness"] = False
    EXTRA_TB.setdefault("C10", []).append(
        "Go runtime facts outside any executable model (goroutine death kills the process, recover semantics, stack/memory limits, scheduling) are observed by the crash-isolation stage, not proved; sqlparser is an oracle (any statement, a syntax error, or an unsupported construct that panics during construction)")
    ASSUME.setdefault("C10", []).extend([
        "partial: real stack depth, memory exhaustion on hostile sizes and OS scheduling are observed in child processes with a 30 s batch timeout, not proved",
        "the structural obligations are syntactic (go/ast); a WaitGroup-only goroutine body is assumed not to panic (each Done is preceded by its Add)"])
