"""C08 over selector sources that keep the dimensions of a multi-dimensional array (harness/c08extra.go) — an
OBSERVATIONAL / METAMORPHIC stage on the real code: `n[keep=>each]`, `grid[keep=>each:0]`, kept slices, a kept
selection continued with `::`, next to plain keys.  (Since round 5 such sources are ALSO model-vs-code cases: the
engine model's FROM carries the C09 selector syntax tree, Model/Ast.v FSel, stream harness/r5_c08.go; this stage
stays as the independent statement of the property on the real code, with the library's own reader as the oracle.)
For every source the library's own reader resolves to an array of arrays and every generated filter/projection query:
the result has the nesting of the source, each innermost result equals the query run directly on that inner array,
and the query over `mix=>source` equals the concatenation of the innermost results."""
import json, os


def extra(ctx):
    name = "kept-dimension-sources"
    res = {"name": name, "ok": False, "violations": [], "coverage": {}}
    d = os.path.join(ctx["rundir"], "c08extra")
    rc, out = ctx["run"]([ctx["exe"], "aux", "c08extra", "-tier", ctx["tier"], "-seed", str(ctx["seed"]), "-out", d],
                         cwd=ctx["rundir"], env=ctx["goenv"], timeout=600)
    p = os.path.join(d, "c08extra.json")
    if rc != 0 or not os.path.exists(p):
        res["detail"] = "driver failed: " + out[-300:]
        res["broken"] = "stage:%s did not complete: %s" % (name, out[-200:].replace("\n", " "))
        return res
    m = json.load(open(p))
    fails = m.get("failures") or []
    per = m.get("per_source") or {}
    kept = sum(v for k, v in per.items() if "keep=>" in k)
    res["coverage"] = {"cases": m.get("checks", 0), "not_applicable": m.get("not_applicable", 0), "non_empty_results": m.get("non_empty_results", 0), "per_source": per,
                       "rule": "documents with arrays of arrays at n, wrap.n (2 levels) and grid (3 levels), ragged, empty inner arrays x 18 selector sources "
                               "(plain keys, keep=> with each / index / slice per dimension, [each], `::` continuation) x filter/projection queries "
                               "(C01 predicates, C02 select lists); a case counts when the library's reader resolves the source to an array of arrays"}
    # the stage is only evidence if the sources it exists for were actually exercised
    enough = m.get("checks", 0) * 2 >= m.get("generated", 1) and kept * 4 >= m.get("checks", 0)
    res["ok"] = not fails and enough
    res["detail"] = "%d of %d observations fail (%d over keep=> sources, %d generated cases not applicable)" % (
        len(fails), m.get("checks", 0), kept, m.get("not_applicable", 0))
    if not fails and not enough:
        res["broken"] = "stage:%s exercised too few multi-dimensional sources (%d checks, %d over keep=>, of %d generated)" % (
            name, m.get("checks", 0), kept, m.get("generated", 0))
    for i, f in enumerate([f for f in fails if "case" in f][:3]):
        rp = os.path.join(ctx["root"], "replays", "C08-%s-%d-extra-%d.json" % (ctx["tier"], ctx["seed"], i))
        json.dump({"property": "C08", "kind": f.get("kind"), "case": f.get("case"), "detail": f.get("detail"),
                   "failing_observations": len(fails),
                   "replay": "vharness aux c08extra -in %s -out <dir>" % os.path.relpath(rp, ctx["root"])}, open(rp, "w"), indent=1)
        res["violations"].append((rp, ""))
    return res


def install(CONFIG, EXTRA_TB, ASSUME):
    CONFIG.setdefault("C08", {}).setdefault("stages", []).append(extra)
    EXTRA_TB.setdefault("C08", []).append(
        "selector sources with keep=> / [each] / ranges / pipes / `::` / fn=> in FROM are resolved in the engine model by the C09 selector model "
        "(Model/Ast.v FSel, Model/SelReader.v; stream r5_c08.go): the model is trusted to mirror ExecReader as far as the C09 correspondence shows; "
        "a selector whose first step reads a registered CTE name or `<-` is reported out of model (the reader would meet a thunk, which the value type "
        "does not have); independently, C08 is OBSERVED on the real code for such sources (stage kept-dimension-sources: nesting, per-inner equality, "
        "mix = concatenation), with genql.ExecReader on the un-mixed selector as the oracle of what the source resolves to")
