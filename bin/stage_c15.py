"""C15 in queries: the property speaks of "the comparison used by WHERE, ORDER BY, IN and joins". The pair sweep of the
correspondence calls compare.Compare and the ORDER BY comparator directly; this stage runs the stream C15W
(harness/r4_c15.go): queries whose WHERE / BETWEEN / IN / ORDER BY compare a column of mixed kind (numbers and
strings) with constants and columns of either kind, executed by the real engine and evaluated by the engine model
(Model/Eval.v -> vcompare; Run/EngineRun.check_seq, the check of C01) on the same inputs. A mismatch is a C15 violation:
the comparison a query applies is not the coherent comparison of compare.Compare."""
import json, os
from concurrent.futures import ThreadPoolExecutor


def in_queries(ctx):
    res = {"name": "comparison-in-queries", "ok": False, "violations": [], "coverage": {}}
    d = os.path.join(ctx["rundir"], "c15w")
    rc, out = ctx["run"]([ctx["exe"], "gen", "C15W", "-tier", ctx["tier"], "-seed", str(ctx["seed"]), "-out", d, "-shard", "40"],
                         cwd=ctx["rundir"], env=ctx["goenv"], timeout=1200)
    if rc != 0:
        res["detail"] = "run failed: " + out[-300:]
        res["broken"] = "stage:comparison-in-queries did not complete: " + out[-200:].replace("\n", " ")
        return res
    meta = json.load(open(os.path.join(d, "meta.json")))
    recs = {r["id"]: r for r in json.load(open(os.path.join(d, "cases.json")))}
    bad, skipped, failed = [], 0, []
    with ThreadPoolExecutor(max_workers=8) as ex:
        for shard, pairs, err, dt in ex.map(lambda s: ctx["eval_shard"](d, s), meta.get("shards", [])):
            if pairs is None:
                failed.append((shard, err))
                continue
            for cid, code in pairs:
                if code == 4:
                    skipped += 1
                else:
                    bad.append((cid, code))
    if failed:
        res["detail"] = "coqc failed on " + failed[0][0]
        res["broken"] = "stage:comparison-in-queries coqc failed: " + failed[0][1][-200:].replace("\n", " ")
        return res
    n = meta.get("evaluations", 0)
    res["coverage"] = {"cases": n, "out_of_model": skipped, "distribution": meta.get("distribution", {}), "rule": meta.get("rule", "")}
    if n and skipped > 0.10 * n:
        res["detail"] = "%d of %d cases are outside the engine model (limit 10%%)" % (skipped, n)
        res["broken"] = "stage:comparison-in-queries model-coverage: " + res["detail"]
        return res
    res["ok"] = not bad
    res["detail"] = "%d of %d queries answered differently from the comparison model (%d outside the model)" % (len(bad), n, skipped)
    for cid, code in sorted(bad)[:3]:
        p = os.path.join(ctx["root"], "replays", "C15-%s-%d-query-%d.json" % (ctx["tier"], ctx["seed"], cid))
        r = recs.get(cid, {})
        json.dump({"property": "C15",
                   "kind": "a query's WHERE / BETWEEN / IN / ORDER BY over values of mixed kind disagrees with the comparison model (engine model, Model/Eval.v -> vcompare)",
                   "input": r.get("input"), "observed_on_real_code": r.get("observed"), "tags": r.get("tags"),
                   "replay": "./bin/check C01 --replay <this file>   (an ordinary engine case; C01 uses the same check, EngineRun.check_seq)"},
                  open(p, "w"), indent=1)
        res["violations"].append((p, ""))
    return res


def install(CONFIG, EXTRA_TB, ASSUME):
    CONFIG.setdefault("C15", {}).setdefault("stages", []).append(in_queries)
    EXTRA_TB.setdefault("C15", []).append("the stage comparison-in-queries reuses the engine model (Model/Eval.v, Exec.v; Run/EngineRun.check_seq) for queries over columns of mixed kind; sqlparser's grammar is an oracle as for C01")
