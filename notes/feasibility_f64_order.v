(* DESIGN-TIME CALIBRATION ONLY — not part of the development, not built by any check.
   Float order laws for PrimFloat via Flocq: ltb is transitive on non-NaN doubles (order embedding into extended reals). *)
From Coq Require Import Floats ZArith Reals Lia Lra Bool.
From Flocq Require Import Core.Raux IEEE754.BinarySingleNaN IEEE754.PrimFloat.
Local Open Scope R_scope.

Definition notnan (x : float) : Prop := is_nan (Prim2B x) = false.

(* extended-real key: -inf < finite < +inf *)
Inductive ext := NegInf | Fin (r : R) | PosInf.
Definition key (b : binary_float prec emax) : ext :=
  match b with
  | B754_infinity true => NegInf
  | B754_infinity false => PosInf
  | _ => Fin (B2R b)
  end.
Definition ext_lt (a b : ext) : Prop :=
  match a, b with
  | NegInf, NegInf => False | NegInf, _ => True
  | Fin _, NegInf => False | Fin x, Fin y => x < y | Fin _, PosInf => True
  | PosInf, _ => False
  end.

Lemma Bltb_key (a b : binary_float prec emax) :
  is_nan a = false -> is_nan b = false -> (Bltb a b = true <-> ext_lt (key a) (key b)).
Proof.
  intros Ha Hb.
  destruct a as [sa|sa| |sa ma ea Hma], b as [sb|sb| |sb mb eb Hmb]; try discriminate;
  try (destruct sa); try (destruct sb); cbn -[Bltb B2R]; 
  try (unfold Bltb, Bcompare; cbn; intuition (try discriminate; try lra; auto); fail).
  all: try (rewrite Bltb_correct by reflexivity; 
            destruct (Rlt_bool_spec (B2R (B754_zero sa)) (B2R (B754_zero sb))); intuition (try discriminate; try lra)).
  all: try (rewrite Bltb_correct by reflexivity;
            match goal with |- Rlt_bool ?x ?y = true <-> _ => destruct (Rlt_bool_spec x y) end; intuition (try discriminate; try lra)).
Qed.

Lemma ext_lt_trans a b c : ext_lt a b -> ext_lt b c -> ext_lt a c.
Proof. destruct a, b, c; cbn; try tauto; lra. Qed.

Theorem ltb_trans x y z : notnan x -> notnan y -> notnan z ->
  PrimFloat.ltb x y = true -> PrimFloat.ltb y z = true -> PrimFloat.ltb x z = true.
Proof.
  unfold notnan; intros Hx Hy Hz. rewrite !ltb_equiv.
  rewrite !Bltb_key by assumption. apply ext_lt_trans.
Qed.
Print Assumptions ltb_trans.
