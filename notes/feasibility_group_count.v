(* DESIGN-TIME CALIBRATION ONLY — not part of the development. Conservation law of first-appearance grouping. *)
From Coq Require Import List Arith Lia Permutation Bool.
Import ListNotations.

Section Group.
Context {R K : Type} (key : R -> K) (keq : K -> K -> bool).
Hypothesis keq_spec : forall a b, keq a b = true <-> a = b.

(* code-shaped: linear scan of an ordered group list, append member or open new group at the end *)
Fixpoint insert (r : R) (gs : list (K * list R)) : list (K * list R) :=
  match gs with
  | [] => [(key r, [r])]
  | (k, ms) :: gs' => if keq k (key r) then (k, ms ++ [r]) :: gs' else (k, ms) :: insert r gs'
  end.
Definition group (rows : list R) := fold_left (fun gs r => insert r gs) rows [].

(* textbook spec *)
Definition members (k : K) (rows : list R) := filter (fun r => keq k (key r)) rows.
Fixpoint first_keys (rows : list R) (seen : list K) : list K :=
  match rows with
  | [] => []
  | r :: rs => if existsb (keq (key r)) seen then first_keys rs seen
               else key r :: first_keys rs (key r :: seen)
  end.
Definition group_spec (rows : list R) := map (fun k => (k, members k rows)) (first_keys rows []).

Definition Inv (done : list R) (gs : list (K * list R)) :=
  gs = map (fun k => (k, members k done)) (first_keys done []).
End Group.

(* calibration only: conservation law *)
Section Cons.
Context {R K : Type} (key : R -> K) (keq : K -> K -> bool).
Lemma insert_count r gs :
  length (concat (map snd (insert key keq r gs))) = S (length (concat (map snd gs))).
Proof.
  induction gs as [|[k ms] gs IH]; cbn; [reflexivity|].
  destruct (keq k (key r)); cbn; rewrite ?app_length in *; cbn; rewrite ?app_length; cbn; lia.
Qed.
Lemma group_count rows gs0 :
  length (concat (map snd (fold_left (fun gs r => insert key keq r gs) rows gs0)))
  = length rows + length (concat (map snd gs0)).
Proof.
  revert gs0; induction rows as [|r rs IH]; intros gs0; cbn; [reflexivity|].
  rewrite IH, insert_count. lia.
Qed.
End Cons.
Print Assumptions group_count.
