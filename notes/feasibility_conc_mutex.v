(* DESIGN-TIME CALIBRATION ONLY — not part of the development, not built by any check.
   For every interleaving of workers doing Lock; tmp := slice; slice := tmp ++ batch; Unlock, the slice is the
   concatenation of the batches in completion order (mutual exclusion is what makes the non-atomic append safe). *)
From Coq Require Import List Arith Lia Bool.
Import ListNotations.

Section Par.
Context {A : Type} (batch : nat -> list A).

Record st := { lock : option nat; slice : list A; order : list nat;
               pc : nat -> nat; tmp : nat -> list A }.
Definition upd {B} (f : nat -> B) (i : nat) (v : B) : nat -> B := fun j => if Nat.eqb j i then v else f j.

(* worker i: 0 Lock; 1 tmp := slice; 2 slice := tmp ++ batch i; 3 Unlock; 4 finished *)
Definition step (s : st) (i : nat) : st :=
  match pc s i with
  | 0 => match lock s with
         | None => {| lock := Some i; slice := slice s; order := order s; pc := upd (pc s) i 1; tmp := tmp s |}
         | Some _ => s                                  (* blocked *)
         end
  | 1 => {| lock := lock s; slice := slice s; order := order s; pc := upd (pc s) i 2; tmp := upd (tmp s) i (slice s) |}
  | 2 => {| lock := lock s; slice := tmp s i ++ batch i; order := order s ++ [i]; pc := upd (pc s) i 3; tmp := tmp s |}
  | 3 => {| lock := None; slice := slice s; order := order s; pc := upd (pc s) i 4; tmp := tmp s |}
  | _ => s
  end.
Definition init : st := {| lock := None; slice := []; order := []; pc := fun _ => 0; tmp := fun _ => [] |}.
Definition run (sched : list nat) : st := fold_left step sched init.

Definition in_cs (s : st) (i : nat) := pc s i = 1 \/ pc s i = 2 \/ pc s i = 3.
Record Inv (s : st) : Prop := {
  I_lock : forall i, in_cs s i <-> lock s = Some i;
  I_tmp  : forall i, pc s i = 2 -> tmp s i = slice s;
  I_slice : slice s = flat_map batch (order s);
  I_order : forall i, In i (order s) <-> 3 <= pc s i;
  I_nodup : NoDup (order s);
  I_pc : forall i, pc s i <= 4 }.

Lemma upd_same {B} (f : nat -> B) i v : upd f i v i = v.
Proof. unfold upd; now rewrite Nat.eqb_refl. Qed.
Lemma upd_other {B} (f : nat -> B) i j v : j <> i -> upd f i v j = f j.
Proof. unfold upd; intros H; destruct (Nat.eqb_spec j i); congruence. Qed.

Lemma Inv_init : Inv init.
Proof. constructor; cbn; unfold in_cs; cbn; intros; try split; try intuition (try lia; try discriminate; auto). constructor. Qed.

Lemma Inv_step s i : Inv s -> Inv (step s i).
Proof.
  intros [Hl Ht Hs Ho Hn Hp]. unfold step.
  destruct (pc s i) as [|[|[|[|k]]]] eqn:Epc.
  - (* Lock *)
    destruct (lock s) as [h|] eqn:El; [constructor; rewrite ?El; auto|].
    constructor; cbn; unfold in_cs; cbn.
    + intros j. destruct (Nat.eq_dec j i) as [->|Hne].
      * rewrite upd_same. intuition.
      * rewrite (upd_other _ _ _ _ Hne). split.
        -- intros Hcs. apply Hl in Hcs. congruence.
        -- intros [= ->]. congruence.
    + intros j Hj. destruct (Nat.eq_dec j i) as [->|Hne]; [rewrite upd_same in Hj; lia|].
      rewrite (upd_other _ _ _ _ Hne) in Hj. auto.
    + exact Hs.
    + intros j. destruct (Nat.eq_dec j i) as [->|Hne].
      * rewrite upd_same. rewrite Ho. lia.
      * rewrite (upd_other _ _ _ _ Hne). apply Ho.
    + exact Hn.
    + intros j. destruct (Nat.eq_dec j i) as [->|Hne]; [rewrite upd_same; lia|rewrite upd_other; auto].
  - (* Read *)
    constructor; cbn; unfold in_cs; cbn.
    + intros j. destruct (Nat.eq_dec j i) as [->|Hne].
      * rewrite upd_same. rewrite <- Hl. unfold in_cs. lia.
      * rewrite (upd_other _ _ _ _ Hne). apply Hl.
    + intros j Hj. destruct (Nat.eq_dec j i) as [->|Hne]; [now rewrite upd_same|].
      rewrite (upd_other _ _ _ _ Hne) in Hj. rewrite upd_other by exact Hne. auto.
    + exact Hs.
    + intros j. destruct (Nat.eq_dec j i) as [->|Hne].
      * rewrite upd_same. rewrite Ho. lia.
      * rewrite (upd_other _ _ _ _ Hne). apply Ho.
    + exact Hn.
    + intros j. destruct (Nat.eq_dec j i) as [->|Hne]; [rewrite upd_same; lia|rewrite upd_other; auto].
  - (* Write: this is where mutual exclusion is used *)
    assert (Hcs : lock s = Some i) by (apply Hl; unfold in_cs; lia).
    constructor; cbn; unfold in_cs; cbn.
    + intros j. destruct (Nat.eq_dec j i) as [->|Hne].
      * rewrite upd_same. split; [auto|lia].
      * rewrite (upd_other _ _ _ _ Hne). apply Hl.
    + intros j Hj. destruct (Nat.eq_dec j i) as [->|Hne]; [rewrite upd_same in Hj; lia|].
      rewrite (upd_other _ _ _ _ Hne) in Hj.
      (* another thread between read and write would also hold the lock *)
      assert (lock s = Some j) by (apply Hl; unfold in_cs; lia). congruence.
    + rewrite (Ht i Epc), Hs, flat_map_app. cbn. now rewrite app_nil_r.
    + intros j. rewrite in_app_iff. cbn. destruct (Nat.eq_dec j i) as [->|Hne].
      * rewrite upd_same. split; [lia|auto].
      * rewrite (upd_other _ _ _ _ Hne). rewrite Ho. split; [intros [?|[?|[]]]; [auto|congruence]|auto].
    + assert (~ In i (order s)) by (rewrite Ho; lia).
      clear - Hn H. induction (order s) as [|x xs IH]; cbn; [constructor; [easy|constructor]|].
      inversion Hn; subst. constructor.
      * rewrite in_app_iff; cbn. intros [?|[?|[]]]; [easy|subst; apply H; now left].
      * apply IH; auto. intros ?; apply H; now right.
    + intros j. destruct (Nat.eq_dec j i) as [->|Hne]; [rewrite upd_same; lia|rewrite upd_other; auto].
  - (* Unlock *)
    assert (Hcs : lock s = Some i) by (apply Hl; unfold in_cs; lia).
    constructor; cbn; unfold in_cs; cbn.
    + intros j. destruct (Nat.eq_dec j i) as [->|Hne].
      * rewrite upd_same. split; [lia|discriminate].
      * rewrite (upd_other _ _ _ _ Hne). split; [|discriminate].
        intros Hj. apply Hl in Hj. congruence.
    + intros j Hj. destruct (Nat.eq_dec j i) as [->|Hne]; [rewrite upd_same in Hj; lia|].
      rewrite (upd_other _ _ _ _ Hne) in Hj. auto.
    + exact Hs.
    + intros j. destruct (Nat.eq_dec j i) as [->|Hne].
      * rewrite upd_same. rewrite Ho. lia.
      * rewrite (upd_other _ _ _ _ Hne). apply Ho.
    + exact Hn.
    + intros j. destruct (Nat.eq_dec j i) as [->|Hne]; [rewrite upd_same; lia|rewrite upd_other; auto].
  - constructor; auto.
Qed.

Theorem every_schedule sched : Inv (run sched).
Proof.
  unfold run. assert (H : Inv init) by apply Inv_init. revert H. generalize init.
  induction sched as [|i sched IH]; cbn; intros s H; [exact H|]. apply IH, Inv_step, H.
Qed.

(* what main reads after Wait: whatever the interleaving, the concatenation of the batches in completion order *)
Corollary result_is_concat_of_batches sched :
  slice (run sched) = flat_map batch (order (run sched)) /\ NoDup (order (run sched)).
Proof. destruct (every_schedule sched); auto. Qed.
End Par.
Print Assumptions result_is_concat_of_batches.
